#!/bin/bash
# usage: confirm_seeded.sh <PROP_ID> <agent worktree>   -> /verif/seeded/<PROP_ID>/{patch.diff,demo_<ID>.rs,meta.json}
# Confirms independently, in a fresh scratch worktree: demo passes without the patch, fails with it,
# and the workspace suite (without the demo) passes with it.
set -u
ID=$1; WT=$2; N=${3:-$ID}
OUT=/verif/seeded/$N; mkdir -p $OUT
cp $WT/patch.diff $OUT/patch.diff; cp $WT/demo_$ID.rs $OUT/demo_$ID.rs; cp $WT/NOTES.md $OUT/NOTES.md 2>/dev/null
CF=/tmp/cf-$N; git -C /repo worktree remove --force $CF 2>/dev/null; git -C /repo worktree add -q --detach $CF HEAD
cp $OUT/demo_$ID.rs $CF/serde_avro_fast/tests/demo_$ID.rs
cd $CF
export CARGO_TARGET_DIR=$CF/target
cargo test --offline -p serde_avro_fast --test demo_$ID > $OUT/confirm_without.log 2>&1; R0=$?
git apply $OUT/patch.diff; A=$?
cargo test --offline -p serde_avro_fast --test demo_$ID > $OUT/confirm_with.log 2>&1; R1=$?
rm serde_avro_fast/tests/demo_$ID.rs
cargo test --workspace --offline > $OUT/confirm_suite.log 2>&1; R2=$?
PASSED=$(grep "test result" $OUT/confirm_suite.log | awk '{p+=$4; f+=$6} END {print p" passed "f" failed"}')
cd /; git -C /repo worktree remove --force $CF
python3 - <<PY
import json
json.dump({"property":"$ID","seed":"$N","patch_applies":$A==0,"demo_without_patch_exit":$R0,"demo_with_patch_exit":$R1,"suite_with_patch_exit":$R2,"suite_with_patch":"$PASSED",
 "confirmed": ($A==0 and $R0==0 and $R1!=0 and $R2==0),
 "commands":["cargo test --offline -p serde_avro_fast --test demo_$ID (without patch)","git apply patch.diff","cargo test --offline -p serde_avro_fast --test demo_$ID (with patch)","cargo test --workspace --offline (with patch, demo removed)"]},
 open("$OUT/meta.json","w"),indent=1)
print(open("$OUT/meta.json").read())
PY
tail -c 600 $OUT/confirm_suite.log > $OUT/confirm_suite.tail; rm -f $OUT/confirm_suite.log
