// NOT LOADED: unit `schema_graph` (C19), removed under the fallback rule: write_canonical_form on a heap-allocated
// Vec<SchemaNode> does not finish even for the concrete one-node graph [long] (the node kind read back from the heap
// vector is not constant-folded, so the recursion is unwound to the bound with ~10 call sites per level). C19 is not claimed;
// defect F4 (found in the design phase by running the real crate) is fixed in /repo (3ef4cc7).

//@ unit: schema_graph
//@ inject-into: serde_avro_fast/src/schema/safe/canonical_form.rs
//@ anchor: serde_avro_fast/src/schema/safe/canonical_form.rs :: fn write_canonical_form\(
//@ anchor: serde_avro_fast/src/schema/safe/canonical_form.rs :: pub fn canonical_form_rabin_fingerprint\(&self\) -> Result<\[u8; 8\], SchemaError>
//@ include: common

// ---------------------------------------------------------------------------------------------
// C19 (totality of schema construction on arbitrary node graphs) and C08 (canonical form text):
// the real generic `WriteCanonicalFormState<W>::write_canonical_form`, instantiated with a
// counting writer (termination / totality) and with a small recording writer (text).
// ---------------------------------------------------------------------------------------------

use crate::schema::safe::{Array, Map, SchemaNode, Union};

/// fmt::Write that only counts (keeps the CRC table loop out of the unwinding)
struct CountW(usize);
impl Write for CountW {
	fn write_str(&mut self, s: &str) -> std::fmt::Result {
		self.0 = self.0.wrapping_add(s.len());
		Ok(())
	}
}

fn long() -> SchemaNode {
	SchemaNode::new(RegularType::Long)
}
fn array(k: usize) -> SchemaNode {
	SchemaNode::new(RegularType::Array(Array::new(SchemaKey::from_idx(k))))
}
fn map(k: usize) -> SchemaNode {
	SchemaNode::new(RegularType::Map(Map::new(SchemaKey::from_idx(k))))
}
fn union2(a: usize, b: usize) -> SchemaNode {
	SchemaNode::new(RegularType::Union(Union::new(vec![SchemaKey::from_idx(a), SchemaKey::from_idx(b)])))
}
fn run(nodes: Vec<SchemaNode>) -> bool {
	let n = nodes.len();
	let schema = std::mem::ManuallyDrop::new(SchemaMut::from_nodes(nodes));
	let mut state = std::mem::ManuallyDrop::new(WriteCanonicalFormState {
		w: ErrorConversionWriter(CountW(0)),
		named_type_written: vec![false; n],
		unnamed_type_being_written: vec![false; n],
	});
	let r = state.write_canonical_form(&schema, SchemaKey::from_idx(0));
	let ok = r.is_ok();
	std::mem::forget(r);
	ok
}

//@ harness: c19_canonical_form_on_cyclic_and_dangling_graphs
//@   props: C19
//@   tier: quick
//@   kind: bounded(5 concrete graphs of <= 2 unnamed nodes: self-loop through array / map / union, dangling key, shared node; recursion depth <= 2 - deeper graphs multiply the unwinding by ~10 per level and do not finish)
//@   fn: schema::safe::canonical_form::WriteCanonicalFormState::write_canonical_form (the traversal run by freeze() and canonical_form_rabin_fingerprint()), counting sink
//@   domain: the listed graphs (the symbolic all-graphs version does not finish under CBMC: symbolic indices into the heap node vector)
//@   post: Err for every graph with a cycle through unnamed nodes or a dangling key, Ok for the acyclic ones (sharing is not a cycle); no panic / out-of-bounds; the recursion terminates within the unwinding bound (obligation: recursion unwinding assertion)
#[kani::proof]
#[kani::unwind(3)]
#[kani::stub(alloc::fmt::format, stub_format)]
#[kani::stub(core::fmt::write, stub_fmt_write)]
fn c19_canonical_form_on_cyclic_and_dangling_graphs() {
	assert!(!run(vec![array(0)]), "OBL C19.canonical_form.array_containing_itself_is_err_not_stack_overflow");
	assert!(!run(vec![map(0)]), "OBL C19.canonical_form.map_containing_itself_is_err");
	assert!(!run(vec![union2(1, 0), long()]), "OBL C19.canonical_form.union_containing_itself_is_err");
	assert!(!run(vec![array(7)]), "OBL C19.canonical_form.dangling_key_is_err");
	assert!(run(vec![union2(1, 1), long()]), "OBL C19.canonical_form.shared_node_is_not_a_cycle");
}

//@ harness: c19_schema_graph_canary
//@   props: C19
//@   tier: quick
//@   kind: canary
#[kani::proof]
#[kani::unwind(3)]
#[kani::stub(alloc::fmt::format, stub_format)]
#[kani::stub(core::fmt::write, stub_fmt_write)]
fn c19_schema_graph_canary() {
	assert!(run(vec![array(0)]), "OBL canary");
}

