//@ unit: xdev_container_reader
//@ inject-into: serde_avro_fast/src/object_container_file_encoding/reader/mod.rs
//@ requires-unit: schema_helper
//@ anchor: serde_avro_fast/src/object_container_file_encoding/reader/mod.rs :: pub fn deserialize_seed_next<'de, S: DeserializeSeed<'de>>\(
//@ anchor: serde_avro_fast/src/object_container_file_encoding/reader/mod.rs :: fn deserialize_next_inner<'de, S: DeserializeSeed<'de>>\(
//@ anchor: serde_avro_fast/src/de/read/take.rs :: {2} fn take\(self, block_size: usize\) -> Result<Self::Take, DeError> \{
//@ anchor: serde_avro_fast/src/de/read/take.rs :: impl<'de> Take for SliceRead<'de> \{
//@ anchor: serde_avro_fast/src/de/read/take.rs :: impl<'de> IntoLeftAfterTake for SliceReadTake<'de> \{
//@ include: spec
//@ include: common

// ---------------------------------------------------------------------------------------------
// C17: the container Reader on damaged input (null codec, schema long).  A Reader is put directly
// into its NotInBlock state over the block section of a file (header parsing goes through
// serde_json, out of reach); the file body is one block  [count][size][v][sync16]  whose header
// varints are written in (legal) two-byte form so that truncation can fall INSIDE a varint.
// ---------------------------------------------------------------------------------------------

use crate::schema::self_referential::{
	NodeRef,
	__verif_schema_helper::{mk_schema_static, NODES_LONG, N_LONG},
};
use std::mem::ManuallyDrop;

/// Built in place in the harness body (a macro, not a function): returning the struct from a
/// function moves it (memcpy), after which CBMC no longer constant-folds `compression_codec` and
/// explores miniz_oxide's inflate on every block (does not finish).
macro_rules! reader_over {
	($bytes:expr, $sync:expr) => {
		Reader {
			reader_state: ReaderState::NotInBlock {
				reader: de::read::SliceRead::new($bytes),
				config: de::DeserializerConfig::from_schema_node(NodeRef::from_static(&N_LONG)),
				decompression_buffer: Vec::new(),
			},
			compression_codec: CompressionCodec::Null,
			sync_marker: $sync,
			pretend_eof_because_yielded_unrecoverable_error: false,
			schema: Arc::new(ManuallyDrop::into_inner(mk_schema_static(&NODES_LONG, [0; 8]))),
		}
	};
}

/// Frame obligation (null codec only; C05 not applicable): the `BufReader` arms of the reader's
/// state enum (deflate) stay reachable for CBMC, which then explores miniz_oxide's inflate (does not
/// finish).  flate2's decompression entry point is replaced by an assertion that it is NOT entered.
fn verif_unreachable_inflate(
	_this: &mut flate2::Decompress,
	_input: &[u8],
	_output: &mut [u8],
	_flush: flate2::FlushDecompress,
) -> Result<flate2::Status, flate2::DecompressError> {
	assert!(false, "OBL frame.null_codec_only_inflate_not_entered");
	Ok(flate2::Status::StreamEnd)
}

/// Frame obligation (null codec only): constructing an inflate state is the first thing the deflate
/// arm of `CompressionCodec::state` does.  The stand-in asserts it is NOT constructed; the panic also
/// stops CBMC from exploring the `BufReader<DeflateDecoder<..>>` arms behind it.
fn verif_unreachable_inflate_new(_zlib_header: bool) -> flate2::Decompress {
	panic!("OBL frame.null_codec_only_inflate_state_not_constructed")
}

/// outcome of one deserialize_next::<i64>() call
#[derive(Clone, Copy, PartialEq, Eq)]
enum Out {
	Val(i64),
	End,
	Error,
}
fn next(r: &mut Reader<de::read::SliceRead<'_>>) -> Out {
	let x = r.deserialize_next::<i64>();
	let o = match &x {
		Ok(Some(v)) => Out::Val(*v),
		Ok(None) => Out::End,
		Err(_) => Out::Error,
	};
	std::mem::forget(x);
	o
}

/// file body: one block holding the single value `v` (one-byte varint), two-byte header varints
fn one_block(v: i64, sync: &[u8; 16]) -> [u8; 21] {
	let mut f = [0u8; 21];
	f[0] = 0x82; // count = 1, written as the two-byte varint 82 00
	f[1] = 0x00;
	f[2] = 0x82; // byte size = 1, written as 82 00
	f[3] = 0x00;
	f[4] = spec_enc_long(v).0[0];
	f[5..21].copy_from_slice(sync);
	f
}



/// The datum decoder is abstracted (its contracts are C03/C04): this seed yields a value WITHOUT
/// touching the deserializer it is handed, so every error seen through it is a framing error of the
/// container reader itself, and block payloads are never consumed.
struct IgnoreSeed;
impl<'de> serde::de::DeserializeSeed<'de> for IgnoreSeed {
	type Value = ();
	fn deserialize<D: serde::Deserializer<'de>>(self, d: D) -> Result<(), D::Error> {
		std::mem::forget(d);
		Ok(())
	}
}
#[derive(Clone, Copy, PartialEq, Eq)]
enum Step {
	Val,
	End,
	Error,
}
fn step(r: &mut Reader<de::read::SliceRead<'_>>) -> Step {
	let x = r.deserialize_seed_next(IgnoreSeed);
	let o = match &x {
		Ok(Some(())) => Step::Val,
		Ok(None) => Step::End,
		Err(_) => Step::Error,
	};
	std::mem::forget(x);
	o
}


//@ harness: x17_not_in_block_step
//@   props: XDEV
//@   tier: quick
//@   kind: complete
//@   fn: Reader::deserialize_seed_next / deserialize_next_inner from state NotInBlock (block header: count varint, size varint, CompressionCodec::state -> SliceRead::take), datum decoder abstracted by a seed that ignores its deserializer
//@   domain: every file body of 0..=3 bytes (too short to hold a complete block), every sync marker; one call
//@   post: empty input => end of stream; non-empty => never a silent end of stream; every error sets the end-of-stream latch (so by c17_broken_and_eof_latches it is reported once); a yielded value leaves the reader InBlock
#[kani::proof]
#[kani::unwind(5)]
#[kani::stub(alloc::fmt::format, stub_format)]
#[kani::stub(flate2::Decompress::decompress, verif_unreachable_inflate)]
#[kani::stub(flate2::Decompress::new, verif_unreachable_inflate_new)]
fn x17_not_in_block_step() {
	let buf: [u8; 3] = kani::any();
	let len: usize = kani::any();
	kani::assume(len <= 3);
	let sync: [u8; 16] = kani::any();
	let mut r = reader_over!(&buf[..len], sync);
	let a = step(&mut r);
	kani::cover!(len == 1 && a == Step::Error, "COV cut inside the count varint");
	kani::cover!(len == 2 && buf[0] == 2 && a == Step::Error, "COV cut inside the size varint");
	kani::cover!(a == Step::Val, "COV block of zero-sized values entered");
	if len == 0 {
		assert!(a == Step::End, "OBL C17.empty_body.end_of_stream");
		assert!(!r.pretend_eof_because_yielded_unrecoverable_error, "OBL C17.empty_body.not_an_error");
	} else {
		assert!(a != Step::End, "OBL C17.truncated.no_silent_end_of_stream_inside_a_block");
	}
	if a == Step::Error {
		assert!(r.pretend_eof_because_yielded_unrecoverable_error, "OBL C17.framing_error.latches_end_of_stream");
	}
	if a == Step::Val {
		assert!(matches!(r.reader_state, ReaderState::InBlock { .. }), "OBL C17.value.only_from_inside_a_block");
	}
	std::mem::forget(r);
}



