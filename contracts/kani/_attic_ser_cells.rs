// NOT LOADED: removed from unit ser_cells under the fallback rule (array<long> through the real BlockWriter does not finish in 900 s).

/// a sequence that ADVERTISES `advertised` elements but presents `actual` (a Serialize impl that
/// violates / respects serde's length contract)
struct Seq2 {
	advertised: Option<usize>,
	actual: usize,
	vals: [i64; 2],
}
impl Serialize for Seq2 {
	fn serialize<S: Serializer>(&self, s: S) -> Result<S::Ok, S::Error> {
		let mut seq = s.serialize_seq(self.advertised)?;
		let mut i = 0;
		while i < self.actual {
			seq.serialize_element(&self.vals[i])?;
			i += 1;
		}
		seq.end()
	}
}

//@ harness: c02_array_blocks
//@   props: C02, C01
//@   tier: quick
//@   kind: bounded(0..=2 elements, element values one-byte varints; advertised length None or 0..=2)
//@   fn: ser::serializer::{DatumSerializer::serialize_seq, blocks::BlockWriter::{new, signal_next_record, end}, seq_or_tuple::SerializeSeqOrTupleOrTupleStruct::{serialize_element, end}} (node array<long>)
//@   domain: every (advertised, actual) pair in the bound, symbolic element values
//@   post: Ok iff the advertised length (if any) is not larger than the presented one; then the bytes are a valid Avro array encoding of exactly the presented elements: blocks with positive counts, elements in order, terminated by a zero count; fewer elements than advertised => Err (the already emitted block count would lie)
#[kani::proof]
#[kani::unwind(6)]
#[kani::stub(alloc::fmt::format, stub_format)]
#[kani::stub(DatumSerializer::serialize_union_unnamed, DatumSerializer::verif_unreachable_union_arm)]
fn c02_array_blocks() {
	let actual: usize = kani::any();
	kani::assume(actual <= 2);
	let advertised: Option<usize> = if kani::any() { Some(kani::any()) } else { None };
	if let Some(a) = advertised {
		kani::assume(a <= 2);
	}
	let vals: [i64; 2] = kani::any();
	kani::assume(vals[0] >= -64 && vals[0] < 64 && vals[1] >= -64 && vals[1] < 64);
	let v = Seq2 { advertised, actual, vals };
	let mut config = ManuallyDrop::new(SerializerConfig::new_with_optional_schema(None));
	let mut state = ManuallyDrop::new(SerializerState::from_writer(Vec::new(), &mut config));
	let r = v.serialize(state.serializer_overriding_schema_root(&ARRAY_OF_LONG));
	let out = &state.writer;
	let adv = advertised.unwrap_or(0);
	kani::cover!(r.is_ok() && adv == 1 && actual == 2, "COV more elements than advertised: extra block of one");
	if adv > actual {
		assert!(r.is_err(), "OBL C02.array.fewer_elements_than_advertised_must_be_err");
	} else {
		assert!(r.is_ok(), "OBL C01.array.conforming_sequence_must_serialize");
		// reference decoding of the output per the specification: blocks of positive count, then 0
		let mut pos = 0usize;
		let mut seen = 0usize;
		let mut ok = true;
		let mut guard = 0;
		while guard < 4 {
			if pos >= out.len() {
				ok = false;
				break;
			}
			let c = spec_unzigzag(out[pos] as u64);
			pos += 1;
			if c == 0 {
				break;
			}
			if c < 0 || out[pos - 1] >= 0x80 {
				ok = false;
				break;
			}
			let mut j = 0;
			while j < c && j < 3 {
				if pos >= out.len() || seen >= actual || out[pos] != spec_enc_long(vals[seen]).0[0] {
					ok = false;
					break;
				}
				pos += 1;
				seen += 1;
				j += 1;
			}
			guard += 1;
		}
		assert!(ok && seen == actual && pos == out.len(), "OBL C02.array.output_is_a_valid_block_encoding_of_exactly_the_presented_elements");
	}
	std::mem::forget(r);
}

