//@ unit: container_writer
//@ inject-into: serde_avro_fast/src/object_container_file_encoding/writer/mod.rs
//@ requires-unit: schema_helper
//@ requires-unit: compression_helper
//@ requires-unit: ser_cells
//@ anchor: serde_avro_fast/src/object_container_file_encoding/writer/mod.rs :: {2} fn serialize<T: Serialize>\(&mut self, value: T\) -> Result<\(\), SerError> \{
//@ anchor: serde_avro_fast/src/object_container_file_encoding/writer/mod.rs :: pub fn push_serialized\(
//@ anchor: serde_avro_fast/src/object_container_file_encoding/writer/mod.rs :: {2} fn finish_block\(&mut self\) -> Result<\(\), SerError> \{
//@ anchor: serde_avro_fast/src/object_container_file_encoding/writer/mod.rs :: fn flush_finished_block\(&mut self\) -> Result<\(\), SerError>
//@ anchor: serde_avro_fast/src/object_container_file_encoding/writer/mod.rs :: pub fn into_inner\(mut self\) -> Result<W, SerError>
//@ anchor: serde_avro_fast/src/object_container_file_encoding/writer/mod.rs :: impl<'c, 's, W: Write> Drop for Writer<'c, 's, W>
//@ include: spec
//@ include: common

// ---------------------------------------------------------------------------------------------
// C15 / C06 (block layout) / C16 (caller side): inductive one-step contracts of the container
// Writer, each proved from an ARBITRARY quiescent well-formed state:
//   ghost view: sink (bytes delivered), open block = (n_elements_in_block, buffer), pending = none
//   wf:  n_elements_in_block == 0  =>  buffer empty      (and block_header_size == None)
// Because each step is proved from any wf state and re-establishes wf, the property holds for
// call sequences of any length; only the byte length of the open buffer is bounded.
// ---------------------------------------------------------------------------------------------

use crate::schema::self_referential::__verif_schema_helper::{mk_schema_static, NODES_LONG};
use std::mem::ManuallyDrop;
use crate::ser::DatumSerializer;

/// Modular step: `write_all_vectored` is replaced by its CONTRACT (discharged in unit `vectored`,
/// C16: for a sink that accepts bytes, Ok(()) and the sink receives slices[0] ++ slices[1] ++ ..).
/// The stand-in records what the caller asked to be written, so that the Writer's obligations
/// become "flush passes exactly [block header, block data, sync marker]"; the sink itself is a
/// ghost byte counter.  (Executing the real vectored loop + a recording sink inside every step
/// harness does not finish: OOM/900 s.)
struct FlushRec {
	calls: usize,
	hdr: [[u8; 4]; 2],
	hdr_len: [usize; 2],
	data: [[u8; 4]; 2],
	data_len: [usize; 2],
	sync: [u128; 2],
	sync_len: [usize; 2],
	n_slices: [usize; 2],
}
static mut FLUSHES: FlushRec = FlushRec {
	calls: 0,
	hdr: [[0; 4]; 2],
	hdr_len: [0; 2],
	data: [[0; 4]; 2],
	data_len: [0; 2],
	sync: [0; 2],
	sync_len: [0; 2],
	n_slices: [0; 2],
};
fn first4(s: &[u8]) -> [u8; 4] {
	let mut o = [0u8; 4];
	if s.len() > 0 { o[0] = s[0]; }
	if s.len() > 1 { o[1] = s[1]; }
	if s.len() > 2 { o[2] = s[2]; }
	if s.len() > 3 { o[3] = s[3]; }
	o
}
fn contract_write_all_vectored<'a, W: Write, const N: usize>(
	_writer: &mut W,
	slices: [&'a [u8]; N],
) -> std::io::Result<()> {
	// SAFETY (harness only): single-threaded
	unsafe {
		let rec = &mut *std::ptr::addr_of_mut!(FLUSHES);
		let c = rec.calls;
		assert!(c < 2, "OBL C15.flush.at_most_two_blocks_per_call");
		rec.n_slices[c] = N;
		if N == 3 {
			rec.hdr[c] = first4(slices[0]);
			rec.hdr_len[c] = slices[0].len();
			rec.data[c] = first4(slices[1]);
			rec.data_len[c] = slices[1].len();
			rec.sync_len[c] = slices[2].len();
			if slices[2].len() == 16 {
				let arr: &[u8; 16] = slices[2].try_into().unwrap();
				rec.sync[c] = u128::from_le_bytes(*arr);
			}
		}
		rec.calls = c + 1;
	}
	Ok(())
}
/// the k-th recorded flush is exactly block(count, data) with this writer's sync marker
fn flushed_block_is(k: usize, count: u64, data: &[u8], sync: &[u8; 16]) -> bool {
	let rec = unsafe { &*std::ptr::addr_of!(FLUSHES) };
	let (c, cn) = spec_enc_long(count as i64);
	let (l, ln) = spec_enc_long(data.len() as i64);
	let mut hdr = [0u8; 4];
	let mut i = 0;
	while i < cn && i < 4 {
		hdr[i] = c[i];
		i += 1;
	}
	let mut j = 0;
	while j < ln && cn + j < 4 {
		hdr[cn + j] = l[j];
		j += 1;
	}
	let mut d = [0u8; 4];
	let mut i = 0;
	while i < data.len() && i < 4 {
		d[i] = data[i];
		i += 1;
	}
	rec.n_slices[k] == 3
		&& rec.hdr_len[k] == cn + ln
		&& rec.hdr[k] == hdr
		&& rec.data_len[k] == data.len()
		&& rec.data[k] == d
		&& rec.sync_len[k] == 16
		&& rec.sync[k] == u128::from_le_bytes(*sync)
}
fn n_flushes() -> usize {
	unsafe { (*std::ptr::addr_of!(FLUSHES)).calls }
}

/// sink whose Write methods are never reached (all output goes through write_all_vectored)
struct GhostSink;
impl Write for GhostSink {
	fn write(&mut self, _b: &[u8]) -> std::io::Result<usize> {
		assert!(false, "OBL frame.block_output_only_through_write_all_vectored");
		Ok(0)
	}
	fn flush(&mut self) -> std::io::Result<()> {
		Ok(())
	}
}

struct Pre {
	n: u64,
	buf: [u8; 3],
	len: usize,
	approx: u32,
	sync: [u8; 16],
}
fn any_wf_state() -> Pre {
	let p = Pre { n: kani::any(), buf: kani::any(), len: kani::any(), approx: kani::any(), sync: kani::any() };
	kani::assume(p.len <= 3);
	kani::assume(p.n < (1 << 13)); // <= 2-byte count varint here; every count up to i64::MAX is c15_block_header_all_counts' subject
	kani::assume(p.n > 0 || p.len == 0); // wf
	p
}
fn writer_in_state<'c, 's, W: Write>(p: &Pre, cfg: &'c mut SerializerConfig<'s>, sink: W) -> Writer<'c, 's, W> {
	let mut open = Vec::with_capacity(16);
	open.extend_from_slice(&p.buf[..p.len]);
	Writer {
		inner: WriterInner {
			serializer_state: SerializerState::with_opt_owned_config(open, SerializerConfigRef::Borrowed(cfg)),
			sync_marker: p.sync,
			compression_codec_state: CompressionCodecState::new(Compression::Null),
			n_elements_in_block: p.n,
			approx_block_size: p.approx,
			block_header_buffer: [0; 20],
			block_header_size: None,
		},
		writer: Some(sink),
	}
}
fn wf<W: Write>(w: &Writer<'_, '_, W>) -> bool {
	w.inner.block_header_size.is_none()
		&& (w.inner.n_elements_in_block > 0 || w.inner.serializer_state.writer().is_empty())
}

//@ harness: c15_finish_block_step
//@   replay: no
//@   props: C15, C06
//@   tier: quick
//@   kind: bounded(open buffer <= 3 bytes; every count < 2^13, every sync marker); write_all_vectored replaced by its contract (C16)
//@   fn: object_container_file_encoding::writer::{Writer::finish_block, WriterInner::finish_block, Writer::flush_finished_block, WriterInner::compressed_block}
//@   domain: any quiescent wf state (n, buffer, approx_block_size)
//@   post: n > 0: exactly one flush of [long(n) ++ long(len), buffer, sync]; n == 0: nothing is written; afterwards open block empty, count 0, nothing pending, wf
#[kani::proof]
#[kani::unwind(7)]
#[kani::stub(alloc::fmt::format, stub_format)]
#[kani::stub(stdpanic::catch_unwind, model_catch_unwind)]
#[kani::stub(CompressionCodecState::encode, CompressionCodecState::verif_encode_null_only)]
#[kani::stub(vectored_write_polyfill::write_all_vectored, contract_write_all_vectored)]
fn c15_finish_block_step() {
	let p = any_wf_state();
	let schema = mk_schema_static(&NODES_LONG, [0; 8]);
	let mut cfg = ManuallyDrop::new(SerializerConfig::new(&schema));
	let mut w = ManuallyDrop::new(writer_in_state(&p, &mut cfg, GhostSink));
	let r = w.finish_block();
	assert!(r.is_ok(), "OBL C15.finish_block.succeeds_on_accepting_sink");
	if p.n > 0 {
		kani::cover!(p.len == 3 && p.n > 63, "COV two-byte count, 3 data bytes");
		assert!(n_flushes() == 1 && flushed_block_is(0, p.n, &p.buf[..p.len], &p.sync), "OBL C06.block.layout_is_count_size_data_sync");
	} else {
		assert!(n_flushes() == 0, "OBL C15.finish_block.no_empty_block_is_written");
	}
	assert!(w.inner.n_elements_in_block == 0 && w.inner.serializer_state.writer().is_empty() && wf(&w),
		"OBL C15.finish_block.open_block_empty_and_nothing_pending_afterwards");
	std::mem::forget(r);
}

//@ harness: c15_block_header_all_counts
//@   props: C15, C06
//@   tier: quick
//@   kind: complete
//@   fn: object_container_file_encoding::writer::WriterInner::finish_block (block header construction, null codec)
//@   domain: every element count 1..=i64::MAX, every open-buffer length 0..=3
//@   post: header buffer holds spec long(count) ++ spec long(byte length), block_header_size is their total length (never overruns the 20-byte buffer), count reset to 0
#[kani::proof]
#[kani::unwind(13)]
#[kani::stub(alloc::fmt::format, stub_format)]
#[kani::stub(stdpanic::catch_unwind, model_catch_unwind)]
#[kani::stub(CompressionCodecState::encode, CompressionCodecState::verif_encode_null_only)]
fn c15_block_header_all_counts() {
	let n: u64 = kani::any();
	kani::assume(n >= 1 && n <= i64::MAX as u64);
	let len: usize = kani::any();
	kani::assume(len <= 3);
	let p = Pre { n, buf: kani::any(), len, approx: kani::any(), sync: kani::any() };
	let schema = mk_schema_static(&NODES_LONG, [0; 8]);
	let mut cfg = ManuallyDrop::new(SerializerConfig::new(&schema));
	let mut w = ManuallyDrop::new(writer_in_state(&p, &mut cfg, GhostSink));
	let r = w.inner.finish_block();
	assert!(r.is_ok(), "OBL C15.block_header.ok");
	let (c, cn) = spec_enc_long(n as i64);
	let (l, ln) = spec_enc_long(len as i64);
	kani::cover!(cn == 9, "COV nine-byte count");
	match w.inner.block_header_size {
		Some(sz) => {
			assert!(sz.get() == cn + ln, "OBL C06.block_header.size_is_count_varint_plus_length_varint");
			assert!(w.inner.block_header_buffer[..cn] == c[..cn], "OBL C06.block_header.count_is_spec_long");
			assert!(w.inner.block_header_buffer[cn..cn + ln] == l[..ln], "OBL C06.block_header.byte_size_is_spec_long");
		}
		None => assert!(false, "OBL C15.block_header.block_becomes_pending"),
	}
	assert!(w.inner.n_elements_in_block == 0, "OBL C15.block_header.count_reset");
	std::mem::forget(r);
}

//@ harness: c15_serialize_ok_step
//@   replay: no
//@   props: C15, C06
//@   tier: quick
//@   kind: bounded(open buffer <= 3 bytes before the call; value any i64 in one-byte varint range; every approx_block_size incl. 0); write_all_vectored replaced by its contract (C16)
//@   fn: object_container_file_encoding::writer::{Writer::serialize, WriterInner::serialize}
//@   domain: any quiescent wf state x value
//@   post: the value's encoding is appended to the open block and counted once; blocks are flushed exactly when the buffer reaches approx_block_size (before and/or after the value), each with the specified layout and the right count; wf afterwards
#[kani::proof]
#[kani::unwind(7)]
#[kani::stub(alloc::fmt::format, stub_format)]
#[kani::stub(stdpanic::catch_unwind, model_catch_unwind)]
#[kani::stub(CompressionCodecState::encode, CompressionCodecState::verif_encode_null_only)]
#[kani::stub(vectored_write_polyfill::write_all_vectored, contract_write_all_vectored)]
#[kani::stub(DatumSerializer::serialize_union_unnamed, DatumSerializer::verif_unreachable_union_arm)]
fn c15_serialize_ok_step() {
	let p = any_wf_state();
	let v: i64 = kani::any();
	kani::assume(v >= -64 && v < 64);
	let e = spec_enc_long(v).0[0];
	let schema = mk_schema_static(&NODES_LONG, [0; 8]);
	let mut cfg = ManuallyDrop::new(SerializerConfig::new(&schema));
	let mut w = ManuallyDrop::new(writer_in_state(&p, &mut cfg, GhostSink));
	let r = w.serialize(v);
	assert!(r.is_ok(), "OBL C15.serialize.conforming_value_is_accepted");
	let open = w.inner.serializer_state.writer();
	let flush_before = p.n > 0 && p.len >= p.approx as usize;
	if flush_before {
		assert!(n_flushes() >= 1 && flushed_block_is(0, p.n, &p.buf[..p.len], &p.sync), "OBL C15.serialize.full_block_flushed_first_with_exact_layout");
		if 1 >= p.approx as usize {
			kani::cover!(true, "COV two blocks in one call");
			assert!(n_flushes() == 2 && flushed_block_is(1, 1, &[e], &p.sync), "OBL C15.serialize.value_block_flushed_when_it_reaches_block_size");
			assert!(w.inner.n_elements_in_block == 0 && open.is_empty(), "OBL C15.serialize.open_block_empty_after_flush");
		} else {
			assert!(n_flushes() == 1, "OBL C15.serialize.sink_grows_only_by_complete_blocks");
			assert!(w.inner.n_elements_in_block == 1 && open.len() == 1 && open[0] == e, "OBL C15.serialize.value_opens_new_block_counted_once");
		}
	} else {
		let mut data = [0u8; 4];
		data[..p.len].copy_from_slice(&p.buf[..p.len]);
		data[p.len] = e;
		if p.len + 1 >= p.approx as usize {
			assert!(n_flushes() == 1 && flushed_block_is(0, p.n + 1, &data[..p.len + 1], &p.sync), "OBL C15.serialize.block_with_old_values_plus_this_one");
			assert!(w.inner.n_elements_in_block == 0 && open.is_empty(), "OBL C15.serialize.open_block_empty_after_flush");
		} else {
			kani::cover!(p.len == 2, "COV value appended to open block");
			assert!(n_flushes() == 0, "OBL C15.serialize.nothing_reaches_the_sink_until_a_block_is_complete");
			assert!(w.inner.n_elements_in_block == p.n + 1 && open[..] == data[..p.len + 1], "OBL C15.serialize.value_appended_and_counted_once");
		}
	}
	assert!(wf(&w), "OBL C15.serialize.wf_reestablished");
	std::mem::forget(r);
}

//@ harness: c15_serialize_failing_value_step
//@   replay: no
//@   props: C15
//@   tier: quick
//@   kind: bounded(open buffer <= 3 bytes; the failing value has written k <= 3 arbitrary bytes when it fails)
//@   fn: object_container_file_encoding::writer::{Writer::serialize, WriterInner::serialize} error path (`truncate(buf_len_before_attempt)`)
//@   domain: any quiescent wf state with approx_block_size > buffer length
//@   post: Err is returned; the open buffer is byte-for-byte what it was, the element count is unchanged, nothing reached the sink, nothing is pending: the failed value contributes no bytes and no count
#[kani::proof]
#[kani::unwind(7)]
#[kani::stub(alloc::fmt::format, stub_format)]
#[kani::stub(stdpanic::catch_unwind, model_catch_unwind)]
#[kani::stub(CompressionCodecState::encode, CompressionCodecState::verif_encode_null_only)]
#[kani::stub(core::fmt::write, stub_fmt_write)]
#[kani::stub(vectored_write_polyfill::write_all_vectored, contract_write_all_vectored)]
#[kani::stub(DatumSerializer::serialize_union_unnamed, DatumSerializer::verif_unreachable_union_arm)]
fn c15_serialize_failing_value_step() {
	let p = any_wf_state();
	kani::assume((p.len as u32) < p.approx); // no flush before the attempt (that case is c15_serialize_ok_step's first half)
	let schema = mk_schema_static(&NODES_LONG, [0; 8]);
	let mut cfg = ManuallyDrop::new(SerializerConfig::new(&schema));
	let mut w = ManuallyDrop::new(writer_in_state(&p, &mut cfg, GhostSink));
	let k: usize = kani::any();
	kani::assume(k <= 3);
	kani::cover!(k == 3, "COV three junk bytes to truncate");
	let r = w.serialize(crate::ser::__verif_ser_cells::PartialThenFail { junk: kani::any(), k });
	assert!(r.is_err(), "OBL C15.serialize_failure.error_is_returned");
	let open = w.inner.serializer_state.writer();
	kani::cover!(p.len == 3, "COV non-empty open block preserved");
	assert!(open.len() == p.len && open[..] == p.buf[..p.len], "OBL C15.serialize_failure.open_buffer_restored_byte_for_byte");
	assert!(w.inner.n_elements_in_block == p.n, "OBL C15.serialize_failure.count_unchanged");
	assert!(n_flushes() == 0, "OBL C15.serialize_failure.nothing_reaches_the_sink");
	assert!(wf(&w), "OBL C15.serialize_failure.wf_preserved");
	std::mem::forget(r);
}

//@ harness: c15_push_serialized_step
//@   replay: no
//@   props: C15, C06
//@   tier: quick
//@   kind: bounded(open buffer <= 3 bytes, pushed slice <= 2 bytes; n_objects any u64 with n + n_objects <= i64::MAX)
//@   fn: object_container_file_encoding::writer::{Writer::push_serialized, WriterInner::push_serialized}
//@   domain: any quiescent wf state x pushed bytes x object count; approx_block_size > buffer length
//@   post: bytes appended and count increased by n_objects; a block with the summed count and all bytes is emitted iff the buffer reaches approx_block_size; wf afterwards
#[kani::proof]
#[kani::unwind(7)]
#[kani::stub(alloc::fmt::format, stub_format)]
#[kani::stub(stdpanic::catch_unwind, model_catch_unwind)]
#[kani::stub(CompressionCodecState::encode, CompressionCodecState::verif_encode_null_only)]
#[kani::stub(vectored_write_polyfill::write_all_vectored, contract_write_all_vectored)]
fn c15_push_serialized_step() {
	let p = any_wf_state();
	kani::assume((p.len as u32) < p.approx);
	let extra: [u8; 2] = kani::any();
	let el: usize = kani::any();
	kani::assume(el >= 1 && el <= 2);
	let k: u64 = kani::any();
	kani::assume(k >= 1 && k < (1 << 13) - p.n);
	let schema = mk_schema_static(&NODES_LONG, [0; 8]);
	let mut cfg = ManuallyDrop::new(SerializerConfig::new(&schema));
	let mut w = ManuallyDrop::new(writer_in_state(&p, &mut cfg, GhostSink));
	let r = w.push_serialized(&extra[..el], k);
	assert!(r.is_ok(), "OBL C15.push_serialized.accepted");
	let open = w.inner.serializer_state.writer();
	let mut data = [0u8; 5];
	data[..p.len].copy_from_slice(&p.buf[..p.len]);
	data[p.len..p.len + el].copy_from_slice(&extra[..el]);
	if p.len + el >= p.approx as usize {
		assert!(n_flushes() == 1 && flushed_block_is(0, p.n + k, &data[..p.len + el], &p.sync), "OBL C15.push_serialized.block_has_summed_count_and_all_bytes");
		assert!(w.inner.n_elements_in_block == 0 && open.is_empty(), "OBL C15.push_serialized.open_block_empty_after_flush");
	} else {
		assert!(n_flushes() == 0, "OBL C15.push_serialized.nothing_reaches_the_sink_until_a_block_is_complete");
		assert!(w.inner.n_elements_in_block == p.n + k && open[..] == data[..p.len + el], "OBL C15.push_serialized.bytes_appended_count_added");
	}
	assert!(wf(&w), "OBL C15.push_serialized.wf_reestablished");
	std::mem::forget(r);
}

//@ harness: c15_into_inner_step
//@   replay: no
//@   props: C15
//@   tier: quick
//@   kind: bounded(open buffer <= 3 bytes); write_all_vectored replaced by its contract (C16)
//@   fn: object_container_file_encoding::writer::Writer::into_inner (+ the Drop that runs on the consumed writer)
//@   domain: any quiescent wf state
//@   post: the open block is flushed exactly once (not again by the Drop of the consumed writer) and the sink is handed back
#[kani::proof]
#[kani::unwind(7)]
#[kani::stub(alloc::fmt::format, stub_format)]
#[kani::stub(stdpanic::catch_unwind, model_catch_unwind)]
#[kani::stub(CompressionCodecState::encode, CompressionCodecState::verif_encode_null_only)]
#[kani::stub(vectored_write_polyfill::write_all_vectored, contract_write_all_vectored)]
fn c15_into_inner_step() {
	let p = any_wf_state();
	let schema = mk_schema_static(&NODES_LONG, [0; 8]);
	let mut cfg = ManuallyDrop::new(SerializerConfig::new(&schema));
	let w = writer_in_state(&p, &mut cfg, GhostSink);
	let r = w.into_inner();
	assert!(r.is_ok(), "OBL C15.into_inner.succeeds_on_accepting_sink");
	if p.n > 0 {
		assert!(n_flushes() == 1 && flushed_block_is(0, p.n, &p.buf[..p.len], &p.sync), "OBL C15.into_inner.last_block_flushed_exactly_once");
	} else {
		assert!(n_flushes() == 0, "OBL C15.into_inner.nothing_to_flush");
	}
	std::mem::forget(r);
}

//@ harness: c15_drop_step
//@   replay: no
//@   props: C15
//@   tier: quick
//@   kind: bounded(open buffer <= 3 bytes); write_all_vectored replaced by its contract (C16)
//@   fn: object_container_file_encoding::writer::<Writer as Drop>::drop
//@   domain: any quiescent wf state
//@   post: dropping the writer flushes the open block exactly once (all successfully serialized values end up in the file)
#[kani::proof]
#[kani::unwind(7)]
#[kani::stub(alloc::fmt::format, stub_format)]
#[kani::stub(stdpanic::catch_unwind, model_catch_unwind)]
#[kani::stub(CompressionCodecState::encode, CompressionCodecState::verif_encode_null_only)]
#[kani::stub(vectored_write_polyfill::write_all_vectored, contract_write_all_vectored)]
fn c15_drop_step() {
	let p = any_wf_state();
	let schema = mk_schema_static(&NODES_LONG, [0; 8]);
	let mut cfg = ManuallyDrop::new(SerializerConfig::new(&schema));
	{
		let w = writer_in_state(&p, &mut cfg, GhostSink);
		drop(w);
	}
	if p.n > 0 {
		assert!(n_flushes() == 1 && flushed_block_is(0, p.n, &p.buf[..p.len], &p.sync), "OBL C15.drop.last_block_flushed_on_drop");
	} else {
		assert!(n_flushes() == 0, "OBL C15.drop.nothing_to_flush");
	}
}

/// sink that fails hard on every write
struct FailingSink;
impl Write for FailingSink {
	fn write(&mut self, _b: &[u8]) -> std::io::Result<usize> {
		Err(std::io::Error::from(std::io::ErrorKind::StorageFull))
	}
	fn flush(&mut self) -> std::io::Result<()> {
		Ok(())
	}
}

//@ harness: c16_flush_error_keeps_pending_block
//@   props: C16, C15
//@   tier: quick
//@   kind: bounded(open buffer <= 3 bytes)
//@   fn: object_container_file_encoding::writer::Writer::{finish_block, flush_finished_block} with a sink that reports a hard error
//@   domain: any quiescent wf state with n > 0
//@   post: the failing call returns Err (the error surfaces); the finished block stays pending (header size recorded, data kept) so nothing is silently dropped
#[kani::proof]
#[kani::unwind(7)]
#[kani::stub(alloc::fmt::format, stub_format)]
#[kani::stub(stdpanic::catch_unwind, model_catch_unwind)]
#[kani::stub(CompressionCodecState::encode, CompressionCodecState::verif_encode_null_only)]
#[kani::stub(core::fmt::write, stub_fmt_write)]
fn c16_flush_error_keeps_pending_block() {
	let p = any_wf_state();
	kani::assume(p.n > 0);
	let schema = mk_schema_static(&NODES_LONG, [0; 8]);
	let mut cfg = ManuallyDrop::new(SerializerConfig::new(&schema));
	let mut w = ManuallyDrop::new(writer_in_state(&p, &mut cfg, FailingSink));
	let r = w.finish_block();
	assert!(r.is_err(), "OBL C16.flush.sink_error_surfaces");
	assert!(w.inner.block_header_size.is_some(), "OBL C16.flush.block_stays_pending_after_sink_error");
	let open = w.inner.serializer_state.writer();
	assert!(open.len() == p.len && open[..] == p.buf[..p.len], "OBL C16.flush.block_data_kept_after_sink_error");
	std::mem::forget(r);
}

//@ harness: c15_writer_canary
//@   props: C15, C06, C16
//@   tier: quick
//@   kind: canary
#[kani::proof]
#[kani::unwind(7)]
#[kani::stub(alloc::fmt::format, stub_format)]
#[kani::stub(stdpanic::catch_unwind, model_catch_unwind)]
#[kani::stub(CompressionCodecState::encode, CompressionCodecState::verif_encode_null_only)]
#[kani::stub(vectored_write_polyfill::write_all_vectored, contract_write_all_vectored)]
fn c15_writer_canary() {
	let p = any_wf_state();
	let schema = mk_schema_static(&NODES_LONG, [0; 8]);
	let mut cfg = ManuallyDrop::new(SerializerConfig::new(&schema));
	let mut w = ManuallyDrop::new(writer_in_state(&p, &mut cfg, GhostSink));
	let r = w.finish_block();
	assert!(r.is_err(), "OBL canary");
	std::mem::forget(r);
}
