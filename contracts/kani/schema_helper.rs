//@ unit: schema_helper
//@ inject-into: serde_avro_fast/src/schema/self_referential.rs
//@ anchor: serde_avro_fast/src/schema/self_referential.rs :: pub struct Schema \{
//@ anchor: serde_avro_fast/src/schema/self_referential.rs :: pub\(crate\) fn root<'a>\(&'a self\) -> NodeRef<'a>

/// Test-harness constructor: a frozen `Schema` whose node storage is a `static` array, with the
/// fingerprint given directly (the fields are private to this file).
///
/// It does NOT go through parsing / freeze (serde_json + HashMap are out of CBMC's reach,
/// DESIGN §1).  The node vector is a `Vec` header aliasing the static array and the whole value
/// is `ManuallyDrop`: it is never dropped, grown or written, so no allocator call ever sees the
/// static pointer.  Measured: with heap-built nodes CBMC cannot constant-fold the node kind and
/// every arm of the (de)serializer's `match *schema_node` plus the HashMap drop glue stays
/// reachable (> 900 s); with static nodes the same harness takes seconds.
pub(crate) fn mk_schema_static(
	nodes: &'static [SchemaNode<'static>],
	fingerprint: [u8; 8],
) -> std::mem::ManuallyDrop<Schema> {
	// SAFETY (harness only): len == capacity == nodes.len(), never reallocated or dropped.
	let v = unsafe {
		Vec::from_raw_parts(nodes.as_ptr() as *mut SchemaNode<'static>, nodes.len(), nodes.len())
	};
	std::mem::ManuallyDrop::new(Schema { nodes: v, fingerprint, schema_json: String::new() })
}

pub(crate) static NODES_LONG: [SchemaNode<'static>; 1] = [SchemaNode::Long];

/// const constructors for nodes whose components have fields private to `crate::schema`
pub(crate) const fn anon_name() -> Name {
	Name { fully_qualified_name: String::new(), namespace_delimiter_idx: None }
}
pub(crate) const fn fixed_node(size: usize) -> SchemaNode<'static> {
	SchemaNode::Fixed(Fixed { size, name: anon_name() })
}
pub(crate) const fn decimal_bytes_node(scale: u32) -> SchemaNode<'static> {
	SchemaNode::Decimal(Decimal { _precision: 38, scale, repr: DecimalRepr::Bytes })
}
pub(crate) const fn decimal_fixed_node(size: usize, scale: u32) -> SchemaNode<'static> {
	SchemaNode::Decimal(Decimal {
		_precision: 38,
		scale,
		repr: DecimalRepr::Fixed(Fixed { size, name: anon_name() }),
	})
}
