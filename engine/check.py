#!/usr/bin/env python3
"""Contract-based verification driver for Ten0/serde_avro_fast.

./check <ID> [--tier quick|thorough] [--replay PATH] [--keep]
./check --selftest [ID ...]
./check --record-baseline ID [ID ...]

Per run: copy /repo's working tree to a scratch dir, check anchors, append the
cfg(kani) contract modules to the real source files, discharge every obligation
with `cargo kani` (CBMC) and the Verus units with `verus`, triage, replay
counterexamples natively, write evidence.  Exit 0 = held, 1 = VIOLATION,
2 = UNDECIDED (machinery problem; never an alarm).
"""
import argparse
import json
import os
import re
import shutil
import signal
import subprocess
import sys
import threading
import time

HERE = os.path.dirname(os.path.abspath(__file__))
VERIF = os.path.dirname(HERE)
sys.path.insert(0, HERE)
import props as P  # noqa: E402

REPO = os.environ.get("VERIF_REPO", "/repo")
SCRATCH_BASE = os.environ.get("VERIF_SCRATCH", "/var/tmp")
CACHE = os.environ.get("VERIF_CACHE", os.path.join(VERIF, ".cache"))
KANI_DIR = os.path.join(VERIF, "contracts", "kani")
VERUS_DIR = os.path.join(VERIF, "contracts", "verus")
SPEC = os.path.join(VERIF, "spec", "avro_spec.rs")
BASELINE_FILE = os.path.join(VERIF, "contracts", "BASELINE_OBLIGATIONS.json")
KNOWN_FILE = os.path.join(VERIF, "known_findings.json")
CRATE_DIR = "serde_avro_fast"
RSS_LIMIT_KB = int(os.environ.get("VERIF_RSS_LIMIT_GB", "12")) * 1024 * 1024  # x 5 jobs < 62 GB, no swap here


def log(*a):
    print(*a, flush=True)


# --------------------------------------------------------------------------
# unit parsing
# --------------------------------------------------------------------------
class Unit:
    def __init__(self, path):
        self.path = path
        self.name = None
        self.inject_into = None
        self.anchors = []  # (file, regex)
        self.includes = []
        self.requires = []
        self.crate_attrs = []
        self.harnesses = []  # dicts
        self.body = ""
        self._parse()

    def _parse(self):
        txt = open(self.path).read()
        self.body = txt
        cur = None
        for line in txt.splitlines():
            s = line.strip()
            if not s.startswith("//@"):
                cur = None
                continue
            s = s[3:]
            m = re.match(r"\s*harness:\s*(\S+)\s*$", s)
            if m:
                cur = {"name": m.group(1), "props": [], "tier": "quick", "kind": "complete", "unit": self}
                self.harnesses.append(cur)
                continue
            m = re.match(r"\s+(\w[\w-]*):\s*(.*)$", s)
            if m and cur is not None:
                k, v = m.group(1), m.group(2).strip()
                if k == "props":
                    cur["props"] = [x.strip() for x in v.split(",") if x.strip()]
                else:
                    cur[k] = v
                continue
            m = re.match(r"\s*(\w[\w-]*):\s*(.*)$", s)
            if m:
                k, v = m.group(1), m.group(2).strip()
                if k == "unit":
                    self.name = v
                elif k == "inject-into":
                    self.inject_into = v
                elif k == "anchor":
                    f, rx = v.split("::", 1)
                    self.anchors.append((f.strip(), rx.strip()))
                elif k == "include":
                    self.includes.append(v)
                elif k == "requires-unit":
                    self.requires.append(v)
                elif k == "crate-attr":
                    self.crate_attrs.append(v)
        if not self.name or not self.inject_into:
            raise SystemExit(f"unit {self.path}: missing //@ unit / inject-into header")

    def modpath(self):
        rel = self.inject_into
        assert rel.startswith(CRATE_DIR + "/src/"), rel
        rel = rel[len(CRATE_DIR + "/src/"):]
        rel = rel[:-3]  # .rs
        parts = rel.split("/")
        if parts[-1] in ("mod", "lib"):
            parts = parts[:-1]
        parts.append("__verif_" + self.name)
        return "::".join(parts)

    def full_harness(self, h):
        return self.modpath() + "::" + h["name"]


def load_units():
    units = {}
    for fn in sorted(os.listdir(KANI_DIR)):
        if fn.endswith(".rs") and not fn.startswith("_"):
            u = Unit(os.path.join(KANI_DIR, fn))
            units[u.name] = u
    return units


def select_harnesses(units, pid, tier):
    sel = []
    for u in units.values():
        for h in u.harnesses:
            if pid in h["props"] and (tier == "thorough" or h["tier"] == "quick"):
                sel.append(h)
    return sel


# --------------------------------------------------------------------------
# scratch copy + injection
# --------------------------------------------------------------------------
def make_scratch(tag, repo=REPO):
    d = os.path.join(SCRATCH_BASE, f"verif-{tag}-{os.getpid()}")
    if os.path.exists(d):
        shutil.rmtree(d)
    os.makedirs(d)
    subprocess.check_call(["rsync", "-a", "--exclude", "/target", "--exclude", ".git", repo + "/", d + "/"])
    os.makedirs(os.path.join(d, ".cargo"), exist_ok=True)
    with open(os.path.join(d, ".cargo", "config.toml"), "a") as f:
        f.write("\n[net]\noffline = true\n")
    return d


def check_anchors(scratch, units):
    lost = []
    for u in units:
        for f, rx in u.anchors:
            p = os.path.join(scratch, f)
            if not os.path.exists(p):
                lost.append(f"{u.name}: file {f} missing")
                continue
            want = 1
            m = re.match(r"\{(\d+)\}\s*(.*)$", rx)
            if m:  # "{k} regex": the signature occurs k times (e.g. a method and its inner namesake)
                want, rx = int(m.group(1)), m.group(2)
            n = len(re.findall(rx, open(p).read()))
            # fewer matches than recorded = the code under contract moved or was renamed (undecided);
            # MORE matches (e.g. a new impl of the same trait method) is not a lost anchor: the harnesses
            # call the real items by path and are re-checked against whatever now implements them
            if n < want:
                lost.append(f"{u.name}: anchor /{rx}/ matches {n}x in {f} (expected {want})")
    return lost


def include_text(name):
    if name == "spec":
        return open(SPEC).read()
    return open(os.path.join(KANI_DIR, "_" + name + ".rs")).read()


def inject(scratch, units, extra_tests=None):
    """Append each unit as a cfg(kani) child module of its target file.  The only text ever put
    *before* repository text is `#![cfg_attr(kani, <attr>)]` lines at the top of lib.rs, for units that
    declare `//@ crate-attr:` (nightly feature gates used by harness-only static constructors)."""
    attrs = []
    for u in units:
        for a in u.crate_attrs:
            if a not in attrs:
                attrs.append(a)
    if attrs:
        lib = os.path.join(scratch, CRATE_DIR, "src", "lib.rs")
        txt = open(lib).read()
        open(lib, "w").write("".join(f"#![cfg_attr(kani, {a})]\n" for a in attrs) + txt)
    for u in units:
        p = os.path.join(scratch, u.inject_into)
        parts = [f"\n\n// ===== appended by /verif/engine (unit {u.name}); everything above is the repository's text =====\n",
                 "#[cfg(kani)]\n#[allow(warnings)]\npub(crate) mod __verif_" + u.name + " {\n\tuse super::*;\n"]
        for inc in u.includes:
            parts.append(f"\t// ---- include: {inc}\n")
            parts.append(include_text(inc))
            parts.append("\n")
        parts.append(u.body)
        if extra_tests and u.name in extra_tests:
            parts.append("\n" + extra_tests[u.name] + "\n")
        parts.append("\n}\n")
        with open(p, "a") as f:
            f.write("".join(parts))


def fn_line(scratch, f, rx):
    rx = re.sub(r"^\{\d+\}\s*", "", rx)
    rx = rx.split("\\n")[0]
    try:
        for i, line in enumerate(open(os.path.join(scratch, f)), 1):
            if re.search(rx, line):
                return i
    except Exception:
        pass
    return None


# --------------------------------------------------------------------------
# kani
# --------------------------------------------------------------------------
def prune_cache(target):
    now = time.time()
    for sub in ("kani/x86_64-unknown-linux-gnu/debug/build/serde_avro_fast",
                "kani/x86_64-unknown-linux-gnu/debug/incremental"):
        d = os.path.join(target, sub)
        if os.path.isdir(d):
            for e in os.listdir(d):
                p = os.path.join(d, e)
                try:
                    if now - os.path.getmtime(p) > 3 * 3600:
                        shutil.rmtree(p, ignore_errors=True)
                except OSError:
                    pass


class Watchdog(threading.Thread):
    """Kills cbmc processes whose RSS exceeds the limit (reported as UNDECIDED)."""

    def __init__(self, root_pid):
        super().__init__(daemon=True)
        self.root = root_pid
        self.stop = False
        self.killed = []
        self.peak_kb = 0

    def descendants(self):
        kids = {}
        for pid in os.listdir("/proc"):
            if not pid.isdigit():
                continue
            try:
                with open(f"/proc/{pid}/stat") as f:
                    st = f.read()
                rp = st.rfind(")")
                fields = st[rp + 2:].split()
                ppid = int(fields[1])
                comm = st[st.find("(") + 1:rp]
                kids.setdefault(ppid, []).append((int(pid), comm))
            except Exception:
                continue
        out, stack = [], [self.root]
        while stack:
            p = stack.pop()
            for c, comm in kids.get(p, []):
                out.append((c, comm))
                stack.append(c)
        return out

    def run(self):
        while not self.stop:
            for pid, comm in self.descendants():
                if "cbmc" not in comm and "cadical" not in comm and "kissat" not in comm:
                    continue
                try:
                    with open(f"/proc/{pid}/status") as f:
                        for line in f:
                            if line.startswith("VmRSS:"):
                                kb = int(line.split()[1])
                                self.peak_kb = max(self.peak_kb, kb)
                                if kb > RSS_LIMIT_KB:
                                    os.kill(pid, signal.SIGKILL)
                                    self.killed.append(pid)
                except Exception:
                    pass
            time.sleep(2)


def run_cmd(cmd, cwd, env=None, timeout=None, logfile=None):
    e = dict(os.environ)
    e["CARGO_NET_OFFLINE"] = "true"
    e["CARGO_INCREMENTAL"] = "0"
    e.pop("RUSTFLAGS", None)
    if env:
        e.update(env)
    t0 = time.time()
    p = subprocess.Popen(cmd, cwd=cwd, env=e, stdout=subprocess.PIPE, stderr=subprocess.STDOUT,
                         text=True, start_new_session=True)
    wd = Watchdog(p.pid)
    wd.start()
    try:
        out, _ = p.communicate(timeout=timeout)
        rc = p.returncode
    except subprocess.TimeoutExpired:
        try:
            os.killpg(p.pid, signal.SIGKILL)
        except Exception:
            pass
        out, _ = p.communicate()
        rc = -9
        out = (out or "") + "\n[engine] TIMEOUT\n"
    wd.stop = True
    if logfile:
        with open(logfile, "w") as f:
            f.write("$ " + " ".join(cmd) + "\n" + out)
    return rc, out, time.time() - t0, wd


def kani_cmd(target, harness_full, jobs, json_out, harness_timeout, playback=False, extra=()):
    cmd = ["cargo", "kani", "-p", "serde_avro_fast", "-Z", "function-contracts", "-Z", "stubbing",
           "-Z", "unstable-options", "--exact", "--target-dir", target, "--output-format", "terse"] + list(extra)
    for h in harness_full:
        cmd += ["--harness", h]
    if playback:
        cmd += ["-Z", "concrete-playback", "--concrete-playback=print"]
    else:
        cmd += ["-j", str(jobs), "--export-json", json_out, "--harness-timeout", f"{harness_timeout}s"]
    tail = [x for x in extra if x.startswith("CBMC:")]
    if tail:  # per-loop unwinding bounds passed straight to CBMC (must be last on the command line)
        cmd = [x for x in cmd if not x.startswith("CBMC:")] + ["--cbmc-args"] + [x[5:] for x in tail]
    return cmd


def parse_kani_json(path):
    d = json.load(open(path))
    res = {}
    stats = {x["harness_id"]: (x.get("cbmc_stats") or {}) for x in d.get("cbmc", [])}
    pd = {x["harness_id"]: (x.get("property_details") or {}) for x in d.get("property_details", [])}
    ed = {x["harness_id"]: x for x in d.get("error_details", [])}
    for r in d.get("verification_results", {}).get("results", []):
        hid = r["harness_id"]
        res[hid] = {
            "status": r["status"],
            "duration_s": r.get("duration_ms", 0) / 1000.0,
            "checks": r.get("checks", []),
            "solver_s": stats.get(hid, {}).get("runtime_solver_s"),
            "symex_s": stats.get(hid, {}).get("runtime_symex_s"),
            "counts": pd.get(hid, {}),
            "error": ed.get(hid, {}),
        }
    return res, d.get("tools", {})


def triage_harness(h, r):
    """-> (verdict, detail) verdict in discharged|failed|undecided|canary_ok|canary_vacuous"""
    kind = h.get("kind", "complete")
    if r is None:
        return "undecided", "no result for harness (timeout, crash, OOM or compile problem)"
    checks = r["checks"]
    failed = [c for c in checks if c["status"] == "Failure"]
    unwind_fail = [c for c in failed if c.get("category") == "unwind"]
    real_fail = [c for c in failed if c.get("category") != "unwind"]
    unsupported = [c for c in failed if "not currently supported by Kani" in c.get("description", "")
                   or c.get("category") == "unsupported_construct"]
    covers_bad = [c for c in checks if c.get("category") == "cover" and c["description"].startswith("COV")
                  and c["status"] != "Satisfied"]
    if kind == "canary":
        # must FAIL on its "OBL canary" assertion: the assumptions of the unit are satisfiable
        if any("canary" in c["description"] for c in real_fail):
            return "canary_ok", ""
        return "canary_vacuous", "canary assertion did not fail: assumptions are contradictory or harness unreachable"
    if r["status"] == "Success":
        if covers_bad:
            return "undecided", "vacuity guard: cover not satisfied: " + "; ".join(c["description"] for c in covers_bad)
        if r["counts"].get("undetermined", 0):
            return "undecided", "undetermined checks"
        return "discharged", ""
    if unsupported:
        return "undecided", "unsupported construct reachable: " + unsupported[0]["description"][:120]
    if real_fail:
        # A failed FRAME obligation ("OBL frame.…": an arm/callee the harness's decomposition relies on not
        # being entered was entered) says that the code no longer fits this harness, not that the property
        # is violated - e.g. a correct re-implementation that reaches its result through a different callee.
        # The path ends at the frame assertion, so nothing behind it was decided: UNDECIDED, never an alarm.
        frame = [c for c in real_fail if c["description"].strip('"').startswith("OBL frame.")]
        if frame and len(frame) == len(real_fail):
            return "undecided", "frame obligation failed (the code no longer fits this harness's decomposition; " \
                "the property is not decided by it): " + "; ".join(sorted({c["description"].strip('"') for c in frame}))
        return "failed", real_fail
    if unwind_fail:
        return "undecided", "unwinding assertion failed (bound too small for this tree): " + \
            "; ".join(f'{c["location"].get("file")}:{c["location"].get("line")}' for c in unwind_fail[:3])
    if covers_bad and not failed:
        return "undecided", "vacuity guard: cover not satisfied: " + "; ".join(c["description"] for c in covers_bad)
    return "undecided", "harness did not succeed, no failed check reported (timeout/solver error): " + \
        json.dumps(r.get("error", {}))[:200]


def extract_playback_tests(out):
    """Kani prints one unit test per failed check and per cover (identical value vectors are
    emitted once, under whichever came first).  Tests generated for a failed assertion / safety check
    come first, cover-tests after them as fall-back candidates."""
    blocks = [b for b in re.findall(r"```\s*\n(.*?)```", out, re.S) if "#[test]" in b]
    blocks.sort(key=lambda b: 1 if re.search(r"Check for `cover`", b) else 0)
    res = []
    for b in blocks:
        n = re.search(r"fn\s+(kani_concrete_playback_\w+)", b)
        if n:
            res.append((b, n.group(1)))
    return res


def native_replay(scratch, target, unit, test_code, test_name, logdir, extra=()):
    """Insert the generated unit test into the injected module and run it natively."""
    p = os.path.join(scratch, unit.inject_into)
    txt = open(p).read()
    idx = txt.rstrip().rfind("}")
    txt = txt[:idx] + "\n" + test_code + "\n}\n"
    open(p, "w").write(txt)
    cmd = ["cargo", "kani", "playback", "-p", "serde_avro_fast", "-Z", "concrete-playback"] + \
          [x for x in extra if not x.startswith("CBMC:")] + \
          ["--", test_name, "--nocapture"]
    rc, out, wall, _ = run_cmd(cmd, scratch, env={"CARGO_TARGET_DIR": target + f"-playback-{os.getpid()}"}, timeout=900,
                               logfile=os.path.join(logdir, f"playback-{test_name}.log"))
    ran = re.search(r"running (\d+) test", out)
    n_ran = int(ran.group(1)) if ran else 0
    compiled = n_ran > 0
    test_failed = bool(re.search(r"^test .* \.\.\. FAILED", out, re.M) or re.search(r"test result: FAILED", out))
    aborted = compiled and rc != 0 and bool(re.search(r"stack overflow|SIGSEGV|SIGABRT|signal: \d+", out))
    return {"rc": rc, "ran": n_ran, "failed_natively": bool(compiled and (test_failed or aborted)),
            "build_failed": not compiled,
            "tail": out[-3000:], "wall_s": wall}


# --------------------------------------------------------------------------
# verus
# --------------------------------------------------------------------------
def extract_item(src, start_rx):
    """Return the text of the item starting at the first match of start_rx up to its matching
    closing brace (or terminating ';' for const/static without braces)."""
    m = re.search(start_rx, src, re.M)
    if not m:
        return None
    i = m.start()
    depth = 0
    j = i
    in_str = False
    while j < len(src):
        c = src[j]
        if in_str:
            if c == "\\":
                j += 1
            elif c == '"':
                in_str = False
        elif c == '"':
            in_str = True
        elif c == "/" and src[j:j + 2] == "//":
            nl = src.find("\n", j)
            j = nl if nl != -1 else len(src)
            continue
        elif c in "{[(":
            depth += 1
        elif c in "}])":
            depth -= 1
            if depth == 0 and c == "}":
                return src[i:j + 1]
        elif c == ";" and depth == 0:
            return src[i:j + 1]
        j += 1
    return None


def run_verus_unit(path, scratch, logdir):
    """Template lines:
         //@ extract NAME: <file> :: <start regex>     -> defines ${NAME} = extracted item text
         //@ rewrite NAME: <regex> ==>> <replacement>    -> documented mechanical rewrite applied to it
       and `//@@ NAME` lines in the body are replaced by the text."""
    tpl = open(path).read()
    name = os.path.basename(path)[:-3]
    items, notes, lost = {}, [], []
    for line in tpl.splitlines():
        m = re.match(r"\s*//@ extract (\w+):\s*(\S+)\s*::\s*(.*)$", line)
        if m:
            n, f, rx = m.groups()
            src = open(os.path.join(scratch, f)).read()
            it = extract_item(src, rx.strip())
            if it is None:
                lost.append(f"{name}: cannot extract {n} from {f} (/{rx}/)")
            items[n] = it or ""
        m = re.match(r"\s*//@ rewrite (\w+):\s*(.*?)\s*==>>\s?(.*)$", line)
        if m:
            n, rx, rep = m.groups()
            before = items.get(n, "")
            after, cnt = re.subn(rx, rep.replace("\\n", "\n").replace("\\t", "\t"), before, flags=re.S)
            if cnt != 1:
                lost.append(f"{name}: rewrite /{rx}/ applied {cnt}x on {n} (expected exactly 1)")
            items[n] = after
            notes.append(f"{n}: s/{rx}/{rep}/")
    if lost:
        return {"name": name, "verdict": "undecided", "detail": "; ".join(lost)}
    out_src = re.sub(r"^[ \t]*//@@ (\w+)[ \t]*$", lambda m: items[m.group(1)], tpl, flags=re.M)
    gen = os.path.join(logdir, f"verus-{name}.rs")
    open(gen, "w").write(out_src)
    rc, out, wall, _ = run_cmd(["verus", gen, "--output-json", "--time", "--crate-type=lib"], logdir, timeout=900,
                               logfile=os.path.join(logdir, f"verus-{name}.log"))
    js = None
    m = re.search(r"^\{\s*$", out, re.M)
    if m:
        try:
            js = json.loads(out[m.start():out.rindex("}") + 1])
        except Exception:
            js = None
    vr = (js or {}).get("verification-results", {})
    verified, errors = vr.get("verified", 0) or 0, vr.get("errors", 0) or 0
    smt_ms = ((js or {}).get("times-ms", {}).get("smt", {}) or {}).get("total")
    failed_fns = []
    try:
        for mod in js["times-ms"]["smt"]["smt-run-module-times"]:
            for fb in mod.get("function-breakdown", []):
                if fb.get("success") is False:
                    failed_fns.append(fb["function"])
    except Exception:
        pass
    res = {"name": name, "verified": verified, "errors": errors, "wall_s": wall, "smt_ms": smt_ms,
           "rewrites": notes, "generated": gen, "output_tail": out[:3000], "failed_fns": failed_fns}
    if js is None:
        res["verdict"] = "undecided"
        res["detail"] = "verus produced no JSON result (crash / timeout)"
    elif vr.get("encountered-vir-error") or (vr.get("encountered-error") and errors == 0):
        res["verdict"] = "undecided"
        res["detail"] = "verus rejected the extracted code (outside its subset / type error): " + \
            "; ".join(re.findall(r"^error[^\n]*", out, re.M)[:3])
    elif errors > 0:
        res["verdict"] = "failed"
        res["detail"] = "failed: " + ", ".join(failed_fns) + " :: " + "; ".join(re.findall(r"^error[^\n]*", out, re.M)[:5])
    elif verified == 0:
        res["verdict"] = "undecided"
        res["detail"] = "zero obligations verified (vacuity guard)"
    else:
        res["verdict"] = "discharged"
    return res


# --------------------------------------------------------------------------
# main check
# --------------------------------------------------------------------------
def load_json(path, default):
    try:
        return json.load(open(path))
    except Exception:
        return default


def scan_assumptions(units):
    pats = [r"kani::assume\(", r"#\[kani::stub\(", r"stub_verified", r"external_body", r"assume_specification",
            r"\badmit\(", r"\bassume\("]
    found = []
    files = [u.path for u in units] + [SPEC]
    for u in units:
        for inc in u.includes:
            if inc != "spec":
                files.append(os.path.join(KANI_DIR, "_" + inc + ".rs"))
    seen = set()
    for f in files:
        if f in seen:
            continue
        seen.add(f)
        for i, line in enumerate(open(f), 1):
            if line.strip().startswith("//"):
                continue
            for p in pats:
                if re.search(p, line):
                    found.append(f"{os.path.relpath(f, VERIF)}:{i}: {line.strip()[:140]}")
                    break
    return found


def run_property(pid, tier, repo=REPO, keep=False, quiet_evidence=False, record_baseline=False, evidence=True):
    t0 = time.time()
    cfg = P.PROPS[pid]
    units = load_units()
    harnesses = select_harnesses(units, pid, tier)
    if pid == "XDEV":
        evidence = False  # development aid, not a property
    if os.environ.get("VERIF_SEEDED_RUN"):
        evidence = False  # runs against a deliberately broken tree must not rewrite the committed evidence
    only = os.environ.get("VERIF_ONLY")
    if only:  # development aid; never used by registered commands
        harnesses = [h for h in harnesses if any(o in h["name"] for o in only.split(","))]
        evidence = False
    used_units = []
    for h in harnesses:
        if h["unit"] not in used_units:
            used_units.append(h["unit"])
    changed = True
    while changed:  # transitive closure of requires-unit
        changed = False
        for u in list(used_units):
            for r in u.requires:
                if units[r] not in used_units:
                    used_units.append(units[r])
                    changed = True
    verus_units = [os.path.join(VERUS_DIR, v + ".rs") for v in cfg.get("verus", [])
                   if tier == "thorough" or v not in cfg.get("verus_thorough_only", [])]
    scratch = make_scratch(pid, repo)
    logdir = os.path.join(VERIF, "logs", f"{pid}-{tier}")
    shutil.rmtree(logdir, ignore_errors=True)
    os.makedirs(logdir, exist_ok=True)
    target = os.path.join(CACHE, "kani-target")
    os.makedirs(target, exist_ok=True)
    prune_cache(target)
    baseline = load_json(BASELINE_FILE, {})
    known = load_json(KNOWN_FILE, {"entries": []})
    results = {}  # obligation id -> dict
    undecided, violations, known_lines = [], [], []
    tools = {}
    checker_cmds = []
    peak_kb = 0
    try:
        lost = check_anchors(scratch, used_units)
        if lost:
            for l in lost:
                undecided.append(("anchors", "lost anchor: " + l))
        else:
            # ---------------- Kani
            if harnesses:
                inject(scratch, used_units)
                full = {h["unit"].full_harness(h): h for h in harnesses}
                jout = os.path.join(logdir, "kani.json")
                jobs = int(os.environ.get("VERIF_JOBS", str(cfg.get("jobs", 5))))  # props may lower it for memory-hungry harness sets
                ht = int(os.environ.get("VERIF_HARNESS_TIMEOUT", "900" if tier == "quick" else "5400"))
                cmd = kani_cmd(target, list(full), jobs, jout, ht, extra=cfg.get("kani_args", ()))
                checker_cmds.append(" ".join(cmd[:12]) + " --harness <%d harnesses> -j %d" % (len(full), jobs))
                rc, out, wall, wd = run_cmd(cmd, scratch, timeout=ht * 4 + 1200,
                                            logfile=os.path.join(logdir, "kani.log"))
                peak_kb = wd.peak_kb
                kres = {}
                if os.path.exists(jout):
                    try:
                        kres, tools = parse_kani_json(jout)
                    except Exception as e:  # noqa
                        undecided.append(("kani", f"cannot parse kani json: {e}"))
                else:
                    err = re.findall(r"^error(?:\[E\d+\])?:.*$", out, re.M)
                    undecided.append(("kani", "cargo kani produced no result (build error?): " +
                                      "; ".join(err[:3])[:400] + f" [see {logdir}/kani.log]"))
                if wd.killed:
                    log(f"[engine] watchdog killed {len(wd.killed)} solver process(es) over RSS limit")
                for fh, h in full.items():
                    r = kres.get(fh)
                    verdict, detail = triage_harness(h, r) if kres or not undecided else ("undecided", "no kani run")
                    oid = f"{pid}.{h['name']}"
                    ent = {"id": oid, "harness": h["name"], "unit": h["unit"].name, "kind": h.get("kind"),
                           "fn": h.get("fn"), "domain": h.get("domain"), "post": h.get("post"),
                           "back_end": "kani 0.68 / cbmc 6.11 + cadical", "verdict": verdict,
                           "tier": h["tier"]}
                    if r:
                        ent.update({"wall_s": r["duration_s"], "solver_s": r["solver_s"], "symex_s": r["symex_s"],
                                    "cbmc_checks": r["counts"].get("total_properties"),
                                    "named_obligations": sorted({c["description"].strip('"') for c in r["checks"]
                                                                 if c["description"].strip('"').startswith("OBL")}),
                                    "covers": {c["description"]: c["status"] for c in r["checks"]
                                               if c.get("category") == "cover"}})
                    if verdict == "failed":
                        ent["failed_checks"] = [
                            {"description": c["description"].strip('"'),
                             "at": f'{c["location"].get("file")}:{c["location"].get("line")}',
                             "function": c.get("function")} for c in detail]
                    elif detail:
                        ent["detail"] = detail
                    results[oid] = ent
                # ---- failures: counterexample -> native replay
                for oid, ent in list(results.items()):
                    if ent["verdict"] in ("undecided", "canary_vacuous"):
                        undecided.append((oid, ent.get("detail", ent["verdict"])))
                    if ent["verdict"] != "failed":
                        continue
                    h = [x for x in harnesses if x["name"] == ent["harness"]][0]
                    handle_failure(pid, tier, ent, h, scratch, target, logdir, baseline, known,
                                   violations, known_lines, undecided, record_baseline)
            # ---------------- Verus
            for vp in verus_units:
                vr = run_verus_unit(vp, scratch, logdir)
                oid = f"{pid}.verus.{vr['name']}"
                checker_cmds.append(f"verus logs/{pid}-{tier}/verus-{vr['name']}.rs --output-json --time")
                ent = {"id": oid, "unit": vr["name"], "kind": "lemma/unbounded", "back_end": "verus 0.2026.09.13 / z3",
                       "verdict": vr["verdict"], "verified_fns": vr.get("verified"), "errors": vr.get("errors"),
                       "wall_s": vr.get("wall_s"), "smt_ms": vr.get("smt_ms"), "rewrites": vr.get("rewrites"),
                       "tier": "quick"}
                if vr.get("detail"):
                    ent["detail"] = vr["detail"]
                results[oid] = ent
                if vr["verdict"] == "undecided":
                    undecided.append((oid, vr.get("detail", "")))
                elif vr["verdict"] == "failed":
                    rp = os.path.join(VERIF, "replays", pid)
                    os.makedirs(rp, exist_ok=True)
                    rfile = os.path.join(rp, f"verus.{vr['name']}.json")
                    json.dump({"property": pid, "obligation": oid, "failed_obligation": vr.get("detail"),
                               "verifier": "verus", "generated_file": vr.get("generated"),
                               "verifier_output": vr.get("output_tail"),
                               "note": "Verus gives no counterexample"}, open(rfile, "w"), indent=1)
                    if oid in baseline.get(pid, []) or record_baseline:
                        violations.append((oid, rfile, True))
                    else:
                        undecided.append((oid, "verus obligation failed but was never discharged on the unchanged tree"))
    finally:
        if not keep:
            shutil.rmtree(scratch, ignore_errors=True)
            shutil.rmtree(target + f"-playback-{os.getpid()}", ignore_errors=True)
    # ---------------- evidence + verdict
    # a harness pinned to a recorded open finding is reported (KNOWN-FINDING) but is not counted
    # among the obligations of the proof claim
    obl = [e for e in results.values() if e.get("kind") != "canary" and e["verdict"] != "known_finding"]
    discharged = [e for e in obl if e["verdict"] == "discharged"]
    wall = time.time() - t0
    if evidence:
        write_evidence(pid, tier, cfg, used_units, results, obl, discharged, undecided, violations, known_lines,
                       wall, tools, checker_cmds, peak_kb, scratch_lines(used_units, repo))
    for line in known_lines:
        log(line)
    for oid, why in undecided:
        log(f"UNDECIDED property={pid} obligation={oid} reason={why}")
    for oid, rfile, nofail in violations:
        log(f"VIOLATION property={pid} replay={rfile}" + (" obligation=" + oid) +
            (" no-failing-input-found" if nofail else ""))
    log(f"[{pid}/{tier}] obligations={len(obl)} discharged={len(discharged)} violations={len(violations)} "
        f"undecided={len(undecided)} known={len(known_lines)} wall={wall:.0f}s")
    if record_baseline:
        baseline[pid] = sorted(set(baseline.get(pid, [])) | {e["id"] for e in discharged})
        json.dump(baseline, open(BASELINE_FILE, "w"), indent=1, sort_keys=True)
    if violations:
        return 1, results
    if undecided:
        return 2, results
    return 0, results


def scratch_lines(units, repo):
    out = []
    for u in units:
        for f, rx in u.anchors:
            ln = fn_line(repo, f, rx)
            out.append(f"{f}:{ln} /{rx}/")
    return out


def match_known(known, pid, ent):
    descs = {c["description"] for c in ent.get("failed_checks", [])}
    for k in known.get("entries", []):
        if k.get("status") != "open" or k.get("property") != pid:
            continue
        if k.get("harness") == ent["harness"] and descs and descs <= set(k.get("obligations", [])):
            return k
    return None


def handle_failure(pid, tier, ent, h, scratch, target, logdir, baseline, known, violations, known_lines,
                   undecided, record_baseline):
    oid = ent["id"]
    unit = h["unit"]
    k = match_known(known, pid, ent)
    if k:
        known_lines.append(f"KNOWN-FINDING: property={pid} {k.get('what')} [harness {ent['harness']}]")
        ent["verdict"] = "known_finding"
        return
    # counterexample
    fh = unit.full_harness(h)
    cmd = kani_cmd(target, [fh], 1, None, 0, playback=True, extra=P.PROPS[pid].get("kani_args", ()))
    rc, out, wall, _ = run_cmd(cmd, scratch, timeout=3600, logfile=os.path.join(logdir, f"cex-{h['name']}.log"))
    cands = extract_playback_tests(out)
    if h.get("replay") == "no":
        # the postcondition reads what a contract stand-in recorded; Kani's playback runs WITHOUT stubs, so a
        # native run says nothing about this obligation: report the failed obligation without a replayed input
        cands = []
    rp = os.path.join(VERIF, "replays", pid)
    os.makedirs(rp, exist_ok=True)
    rfile = os.path.join(rp, f"{h['name']}.json")
    rec = {"property": pid, "obligation": oid, "harness": h["name"], "unit": unit.name,
           "function_under_contract": h.get("fn"), "failed_checks": ent.get("failed_checks"),
           "tier": tier, "verifier": "kani/cbmc"}
    nofail = True
    if h.get("replay") == "no":
        rec["note"] = ("modular harness (callee replaced by its contract): Kani's concrete playback runs without stubs, "
                       "so the counterexample is reported as found by the verifier, not replayed natively")
        rec["verifier_output"] = out[-6000:]
    elif not cands:
        rec["note"] = "kani produced no concrete playback test for this failure"
        rec["verifier_output"] = out[-4000:]
    pristine = open(os.path.join(scratch, unit.inject_into)).read()
    for code, tname in cands[:3]:
        open(os.path.join(scratch, unit.inject_into), "w").write(pristine)
        nr = native_replay(scratch, target, unit, code, tname, logdir, extra=P.PROPS[pid].get("kani_args", ()))
        rec["playback_test"] = code
        rec["playback_test_name"] = tname
        vals = re.findall(r"//\s*(.+)\n\s*vec!\[([^\]]*)\]", code)
        rec["concrete_values"] = [{"value": a.strip(), "bytes": b.strip()} for a, b in vals][:64]
        rec["native_replay"] = nr
        if nr["failed_natively"]:
            nofail = False
            break
    open(os.path.join(scratch, unit.inject_into), "w").write(pristine)
    json.dump(rec, open(rfile, "w"), indent=1)
    ent["replay"] = rfile
    ent["replayed_natively"] = not nofail
    if not nofail:
        violations.append((oid, rfile, False))
    elif oid in baseline.get(pid, []) or record_baseline:
        violations.append((oid, rfile, True))
    else:
        undecided.append((oid, "obligation failed without native reproduction and was never discharged on the "
                               "unchanged tree (not in BASELINE_OBLIGATIONS)"))


def write_evidence(pid, tier, cfg, units, results, obl, discharged, undecided, violations, known_lines, wall, tools,
                   checker_cmds, peak_kb, anchor_lines):
    level = cfg["level"]
    complete = [e for e in discharged if (e.get("kind") or "").startswith("complete")]
    bounded = [e for e in discharged if (e.get("kind") or "").startswith("bounded")]
    lemma = [e for e in discharged if (e.get("kind") or "").startswith("lemma")]
    samples = []
    for e in obl[:40]:
        samples.append({k: e.get(k) for k in ("id", "fn", "kind", "domain", "post", "verdict", "back_end", "wall_s",
                                              "solver_s", "cbmc_checks", "named_obligations", "verified_fns")
                        if e.get(k) is not None})
    cov = {
        "obligations": len(obl),
        "discharged": len(discharged),
        "discharged_complete": len(complete),
        "discharged_bounded": [{"id": e["id"], "bound": e["kind"]} for e in bounded],
        "discharged_lemma": len(lemma),
        "cbmc_checks_total": sum(e.get("cbmc_checks") or 0 for e in obl),
        "solver_s_total": round(sum(e.get("solver_s") or 0 for e in obl) + sum((e.get("smt_ms") or 0) / 1000 for e in obl), 2),
        "checker_cmd": " ; ".join(checker_cmds) or "none",
        "trusted_base": cfg.get("assumptions", []) + ["mechanical scan of assume/stub sites: " + s
                                                     for s in scan_assumptions(units)],
        "functions_under_contract": sorted({e["fn"] for e in obl if e.get("fn")}),
        "anchors_in_current_tree": anchor_lines,
        "canaries": {e["id"]: e["verdict"] for e in results.values() if e.get("kind") == "canary"},
        "not_decided": cfg.get("not_decided", []),
        "undecided_this_run": [{"obligation": o, "reason": w} for o, w in undecided],
        "known_findings_reported": known_lines,
        "known_finding_obligations": [e["id"] for e in results.values() if e["verdict"] == "known_finding"],
        "peak_solver_rss_mb": peak_kb // 1024,
        "tools": tools,
        "samples": samples,
        "all_obligations": [{k: v for k, v in e.items() if k not in ("post", "domain")} for e in results.values()],
        "explanation": cfg.get("explanation", ""),
        "exhaustive": False,
    }
    ev = {"property_id": pid, "tier": tier, "seed": int(os.environ.get("VERIF_SEED", "0") or 0), "level": level,
          "coverage": cov, "assumptions": cfg.get("assumptions", []), "wall_s": round(wall, 1),
          "violations": len(violations)}
    os.makedirs(os.path.join(VERIF, "evidence"), exist_ok=True)
    json.dump(ev, open(os.path.join(VERIF, "evidence", f"{pid}.json"), "w"), indent=1)


# --------------------------------------------------------------------------
# replay
# --------------------------------------------------------------------------
def replay(pid, path):
    rec = json.load(open(path))
    if "playback_test" not in rec:
        # no failing input was found when this file was written: show what the verifier said then, and
        # re-decide the named obligation against the CURRENT tree (exit 1 iff it still fails)
        log(f"replay file has no concrete input (obligation {rec.get('obligation')}): "
            f"{rec.get('failed_obligation') or rec.get('failed_checks')}")
        log("---- verifier output recorded with the violation ----")
        log((rec.get("verifier_output") or "")[-2000:])
        log("---- re-checking the obligation against the current tree ----")
        ob = (rec.get("obligation") or "").split(".", 1)[-1]
        if not ob:
            return 1
        if ob.startswith("verus."):
            os.environ["VERIF_ONLY"] = "__none__"
        else:
            os.environ["VERIF_ONLY"] = ob
        try:
            rc, _ = run_property(pid, "thorough", evidence=False)
        finally:
            os.environ.pop("VERIF_ONLY", None)
        return rc
    units = load_units()
    u = units[rec["unit"]]
    needed = [u]
    changed = True
    while changed:  # transitive closure of requires-unit (the unit's helpers live in other units)
        changed = False
        for x in list(needed):
            for r in x.requires:
                if units[r] not in needed:
                    needed.append(units[r])
                    changed = True
    scratch = make_scratch(pid + "-replay")
    logdir = os.path.join(VERIF, "logs", f"{pid}-replay")
    os.makedirs(logdir, exist_ok=True)
    target = os.path.join(CACHE, "kani-target")
    try:
        inject(scratch, needed)
        nr = native_replay(scratch, target, u, rec["playback_test"], rec["playback_test_name"], logdir)
    finally:
        shutil.rmtree(scratch, ignore_errors=True)
        shutil.rmtree(target + f"-playback-{os.getpid()}", ignore_errors=True)
    log(nr["tail"][-1500:])
    if nr.get("build_failed"):
        log(f"UNDECIDED property={pid} obligation=replay reason=the replay test could not be built against the current tree")
        return 2
    if nr["failed_natively"]:
        log(f"VIOLATION property={pid} replay={path}")
        return 1
    log("replay: the real code no longer fails on this input")
    return 0


# --------------------------------------------------------------------------
# selftest (mutants)
# --------------------------------------------------------------------------
def selftest(ids):
    """Mutation self-test over the independently seeded breakages (seeded/<id>/patch.diff): every seed
    whose meta.json has `caught_by` must make that check exit 1; applied to a scratch copy, never to /repo."""
    sdir = os.path.join(VERIF, "seeded")
    ok = True
    rows = []
    for d in sorted(os.listdir(sdir)):
        meta = load_json(os.path.join(sdir, d, "meta.json"), {})
        cb = meta.get("caught_by")
        if not cb or (ids and d not in ids and cb["check"] not in ids):
            continue
        tmp = os.path.join(SCRATCH_BASE, f"verif-seed-{os.getpid()}")
        shutil.rmtree(tmp, ignore_errors=True)
        subprocess.check_call(["rsync", "-a", "--exclude", "/target", "--exclude", ".git", REPO + "/", tmp + "/"])
        r = subprocess.run(["patch", "-p1", "-s", "-i", os.path.join(sdir, d, "patch.diff")], cwd=tmp)
        if r.returncode != 0:
            log(f"[selftest] {d}: patch does not apply")
            ok = False
            shutil.rmtree(tmp, ignore_errors=True)
            continue
        os.environ["VERIF_ONLY"] = cb["obligation"].replace("verus.", "") if not cb["obligation"].startswith("verus.") else "__none__"
        rc, _ = run_property(cb["check"], "quick", repo=tmp, evidence=False)
        os.environ.pop("VERIF_ONLY", None)
        shutil.rmtree(tmp, ignore_errors=True)
        rows.append((d, cb["check"], rc))
        log(f"[selftest] seed {d} vs {cb['check']}: exit {rc} ({'KILLED' if rc == 1 else 'SURVIVED' if rc == 0 else 'UNDECIDED'})")
        if rc != 1:
            ok = False
    log("[selftest] summary: " + ", ".join(f"{d}/{c}={rc}" for d, c, rc in rows))
    return 0 if ok else 1


def setup():
    """Warm the shared Kani target dir (dependencies only change with Cargo.lock) and Verus' start-up
    cache.  Never fails the setup: the checks rebuild whatever is missing."""
    try:
        scratch = make_scratch("setup")
        target = os.path.join(CACHE, "kani-target")
        os.makedirs(target, exist_ok=True)
        cmd = ["cargo", "kani", "-p", "serde_avro_fast", "-Z", "unstable-options", "--only-codegen",
               "--target-dir", target]
        rc, out, wall, _ = run_cmd(cmd, scratch, timeout=1200)
        log(f"[setup] kani dependency build rc={rc} in {wall:.0f}s")
        shutil.rmtree(scratch, ignore_errors=True)
        rc, out, wall, _ = run_cmd(["verus", "--version"], VERIF, timeout=120)
        log(f"[setup] verus: {out.strip().splitlines()[0] if out.strip() else rc}")
    except Exception as e:  # noqa
        log(f"[setup] warm-up skipped: {e}")
    return 0


def main():
    ap = argparse.ArgumentParser()
    ap.add_argument("ids", nargs="*")
    ap.add_argument("--tier", default=os.environ.get("VERIF_TIER") or "quick", choices=["quick", "thorough"])
    ap.add_argument("--replay")
    ap.add_argument("--keep", action="store_true")
    ap.add_argument("--selftest", action="store_true")
    ap.add_argument("--record-baseline", action="store_true")
    ap.add_argument("--setup", action="store_true")
    a = ap.parse_args()
    if a.setup:
        sys.exit(setup())
    if a.selftest:
        sys.exit(selftest(a.ids))
    if not a.ids:
        ap.error("property id required")
    rc_all = 0
    for pid in a.ids:
        if pid not in P.PROPS:
            log(f"unknown or not-applicable property {pid}")
            sys.exit(2)
        if a.replay:
            sys.exit(replay(pid, a.replay))
        rc, _ = run_property(pid, a.tier, keep=a.keep, record_baseline=a.record_baseline)
        rc_all = max(rc_all, rc) if rc != 1 else 1
    sys.exit(rc_all)


if __name__ == "__main__":
    main()
