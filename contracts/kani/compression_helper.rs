//@ unit: compression_helper
//@ inject-into: serde_avro_fast/src/object_container_file_encoding/writer/compression.rs
//@ anchor: serde_avro_fast/src/object_container_file_encoding/writer/compression.rs :: pub\(super\) fn encode\(&mut self, input: &\[u8\]\) -> Result<\(\), SerError>
//@ anchor: serde_avro_fast/src/object_container_file_encoding/writer/compression.rs :: Kind::Null => \{\}

/// Frame obligation for the container-writer step contracts (null codec only, C05 is not
/// applicable): after the writer struct has been moved, CBMC no longer constant-folds the codec
/// kind and explores miniz_oxide's deflate (does not finish).  `encode` is replaced by what its
/// `Kind::Null => {}` arm does, guarded by an assertion (an obligation, not an assumption) that
/// the codec IS null.
impl CompressionCodecState {
	pub(in super::super) fn verif_encode_null_only(&mut self, _input: &[u8]) -> Result<(), SerError> {
		assert!(matches!(self.kind, Kind::Null), "OBL frame.null_codec_only");
		Ok(())
	}
}
