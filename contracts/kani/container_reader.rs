//@ unit: container_reader
//@ inject-into: serde_avro_fast/src/object_container_file_encoding/reader/mod.rs
//@ requires-unit: schema_helper
//@ anchor: serde_avro_fast/src/object_container_file_encoding/reader/mod.rs :: pub fn deserialize_seed_next<'de, S: DeserializeSeed<'de>>\(
//@ anchor: serde_avro_fast/src/object_container_file_encoding/reader/mod.rs :: fn deserialize_next_inner<'de, S: DeserializeSeed<'de>>\(
//@ anchor: serde_avro_fast/src/de/read/take.rs :: {2} fn take\(self, block_size: usize\) -> Result<Self::Take, DeError> \{
//@ anchor: serde_avro_fast/src/de/read/take.rs :: impl<'de> Take for SliceRead<'de> \{
//@ anchor: serde_avro_fast/src/de/read/take.rs :: impl<'de> IntoLeftAfterTake for SliceReadTake<'de> \{
//@ anchor: serde_avro_fast/src/object_container_file_encoding/reader/decompression.rs :: pub\(super\) fn state<'de, 's, R>\(
//@ anchor: serde_avro_fast/src/object_container_file_encoding/reader/decompression.rs :: pub\(super\) fn into_source_reader_and_config\(
//@ include: spec
//@ include: common

// ---------------------------------------------------------------------------------------------
// C17: the container Reader on damaged input (null codec, schema long).  A Reader is put directly
// into its NotInBlock state over the block section of a file (header parsing goes through
// serde_json, out of reach); the file body is one block  [count][size][v][sync16]  whose header
// varints are written in (legal) two-byte form so that truncation can fall INSIDE a varint.
// ---------------------------------------------------------------------------------------------

use crate::schema::self_referential::{
	NodeRef,
	__verif_schema_helper::{mk_schema_static, NODES_LONG, N_LONG},
};
use std::mem::ManuallyDrop;

/// Built in place in the harness body (a macro, not a function): returning the struct from a
/// function moves it (memcpy), after which CBMC no longer constant-folds `compression_codec` and
/// explores miniz_oxide's inflate on every block (does not finish).
macro_rules! reader_over {
	($bytes:expr, $sync:expr) => {
		Reader {
			reader_state: ReaderState::NotInBlock {
				reader: de::read::SliceRead::new($bytes),
				config: de::DeserializerConfig::from_schema_node(NodeRef::from_static(&N_LONG)),
				decompression_buffer: Vec::new(),
			},
			compression_codec: CompressionCodec::Null,
			sync_marker: $sync,
			pretend_eof_because_yielded_unrecoverable_error: false,
			schema: Arc::new(ManuallyDrop::into_inner(mk_schema_static(&NODES_LONG, [0; 8]))),
		}
	};
}

/// Frame obligation (null codec only; C05 not applicable): the `BufReader` arms of the reader's
/// state enum (deflate) stay reachable for CBMC, which then explores miniz_oxide's inflate (does not
/// finish).  flate2's decompression entry point is replaced by an assertion that it is NOT entered.
fn verif_unreachable_inflate(
	_this: &mut flate2::Decompress,
	_input: &[u8],
	_output: &mut [u8],
	_flush: flate2::FlushDecompress,
) -> Result<flate2::Status, flate2::DecompressError> {
	assert!(false, "OBL frame.null_codec_only_inflate_not_entered");
	Ok(flate2::Status::StreamEnd)
}

/// Frame obligation (null codec only): constructing an inflate state is the first thing the deflate
/// arm of `CompressionCodec::state` does.  The stand-in asserts it is NOT constructed; the panic also
/// stops CBMC from exploring the `BufReader<DeflateDecoder<..>>` arms behind it.
fn verif_unreachable_inflate_new(_zlib_header: bool) -> flate2::Decompress {
	panic!("OBL frame.null_codec_only_inflate_state_not_constructed")
}

/// outcome of one deserialize_next::<i64>() call
#[derive(Clone, Copy, PartialEq, Eq)]
enum Out {
	Val(i64),
	End,
	Error,
}
fn next(r: &mut Reader<de::read::SliceRead<'_>>) -> Out {
	let x = r.deserialize_next::<i64>();
	let o = match &x {
		Ok(Some(v)) => Out::Val(*v),
		Ok(None) => Out::End,
		Err(_) => Out::Error,
	};
	std::mem::forget(x);
	o
}

/// file body: one block holding the single value `v` (one-byte varint), two-byte header varints
fn one_block(v: i64, sync: &[u8; 16]) -> [u8; 21] {
	let mut f = [0u8; 21];
	f[0] = 0x82; // count = 1, written as the two-byte varint 82 00
	f[1] = 0x00;
	f[2] = 0x82; // byte size = 1, written as 82 00
	f[3] = 0x00;
	f[4] = spec_enc_long(v).0[0];
	f[5..21].copy_from_slice(sync);
	f
}

//@ harness: c17_broken_and_eof_latches
//@   props: C17
//@   tier: quick
//@   kind: complete
//@   fn: object_container_file_encoding::reader::Reader::deserialize_seed_next (state Broken / pretend-EOF latch)
//@   domain: reader in state Broken; reader whose EOF latch is set, over any remaining input
//@   post: Broken => Err once, then the latch is set and every later call is end of stream; latch set => end of stream without touching the input
#[kani::proof]
#[kani::unwind(5)]
#[kani::stub(alloc::fmt::format, stub_format)]
#[kani::stub(flate2::Decompress::decompress, verif_unreachable_inflate)]
fn c17_broken_and_eof_latches() {
	let buf: [u8; 4] = kani::any();
	let sync: [u8; 16] = kani::any();
	let mut r = reader_over!(&buf[..], sync);
	r.reader_state = ReaderState::Broken;
	let a = next(&mut r);
	let b = next(&mut r);
	assert!(a == Out::Error && b == Out::End, "OBL C17.broken.error_once_then_end_of_stream");
	assert!(r.pretend_eof_because_yielded_unrecoverable_error, "OBL C17.broken.latch_set");
	let mut r2 = reader_over!(&buf[..], sync);
	r2.pretend_eof_because_yielded_unrecoverable_error = true;
	let c = next(&mut r2);
	assert!(c == Out::End, "OBL C17.latch.end_of_stream_without_reading");
	std::mem::forget(r);
	std::mem::forget(r2);
}

//@ harness: c17_slice_take_contract
//@   props: C17, C11
//@   tier: quick
//@   kind: complete
//@   fn: de::read::take::{<SliceRead as Take>::take, <SliceReadTake as IntoLeftAfterTake>::into_left_after_take}
//@   domain: every input length 0..=6, every block_size (any usize)
//@   post: block_size > remaining => Err; otherwise the sub-reader holds exactly the first block_size bytes and the rest is left for afterwards; into_left_after_take is Ok iff the sub-reader was fully consumed, and then resumes exactly after the block
#[kani::proof]
#[kani::unwind(9)]
#[kani::stub(alloc::fmt::format, stub_format)]
fn c17_slice_take_contract() {
	use crate::de::read::take::{IntoLeftAfterTake, Take};
	use std::io::BufRead;
	let buf: [u8; 6] = kani::any();
	let len: usize = kani::any();
	kani::assume(len <= 6);
	let n: usize = kani::any();
	let t = de::read::SliceRead::new(&buf[..len]).take(n);
	match t {
		Err(e) => {
			std::mem::forget(e);
			assert!(n > len, "OBL C17.take.err_only_when_block_exceeds_input");
		}
		Ok(mut sub) => {
			assert!(n <= len, "OBL C17.take.block_larger_than_input_is_err");
			let avail = sub.fill_buf().map(|b| b.len()).unwrap_or(usize::MAX);
			assert!(avail == n, "OBL C17.take.sub_reader_limited_to_block_size");
			let eat: usize = kani::any();
			kani::assume(eat <= n);
			sub.consume(eat);
			match sub.into_left_after_take() {
				Ok(mut rest) => {
					assert!(eat == n, "OBL C17.take.leftover_block_data_is_an_error");
					let left = rest.fill_buf().map(|b| b.len()).unwrap_or(usize::MAX);
					assert!(left == len - n, "OBL C17.take.resumes_exactly_after_the_block");
				}
				Err(e) => {
					std::mem::forget(e);
					assert!(eat < n, "OBL C17.take.fully_consumed_block_is_accepted");
				}
			}
		}
	}
}

/// The datum decoder is abstracted (its contracts are C03/C04): this seed yields a value WITHOUT
/// touching the deserializer it is handed, so every error seen through it is a framing error of the
/// container reader itself, and block payloads are never consumed.
struct IgnoreSeed;
impl<'de> serde::de::DeserializeSeed<'de> for IgnoreSeed {
	type Value = ();
	fn deserialize<D: serde::Deserializer<'de>>(self, d: D) -> Result<(), D::Error> {
		std::mem::forget(d);
		Ok(())
	}
}
#[derive(Clone, Copy, PartialEq, Eq)]
enum Step {
	Val,
	End,
	Error,
}
fn step(r: &mut Reader<de::read::SliceRead<'_>>) -> Step {
	let x = r.deserialize_seed_next(IgnoreSeed);
	let o = match &x {
		Ok(Some(())) => Step::Val,
		Ok(None) => Step::End,
		Err(_) => Step::Error,
	};
	std::mem::forget(x);
	o
}


//@ harness: c17_not_in_block_step
//@   props: C17
//@   tier: quick
//@   kind: complete
//@   fn: Reader::deserialize_seed_next / deserialize_next_inner from state NotInBlock (block header: count varint, size varint, CompressionCodec::state -> SliceRead::take), datum decoder abstracted by a seed that ignores its deserializer
//@   domain: every file body of 0..=3 bytes (too short to hold a complete block), every sync marker; one call
//@   post: empty input => end of stream; non-empty => never a silent end of stream; every error sets the end-of-stream latch (so by c17_broken_and_eof_latches it is reported once); a yielded value leaves the reader InBlock
#[kani::proof]
#[kani::unwind(5)]
#[kani::stub(alloc::fmt::format, stub_format)]
#[kani::stub(flate2::Decompress::decompress, verif_unreachable_inflate)]
#[kani::stub(flate2::Decompress::new, verif_unreachable_inflate_new)]
fn c17_not_in_block_step() {
	let buf: [u8; 3] = kani::any();
	let len: usize = kani::any();
	kani::assume(len <= 3);
	let sync: [u8; 16] = kani::any();
	let mut r = reader_over!(&buf[..len], sync);
	let a = step(&mut r);
	kani::cover!(len == 1 && a == Step::Error, "COV cut inside the count varint");
	kani::cover!(len == 2 && buf[0] == 2 && a == Step::Error, "COV cut inside the size varint");
	kani::cover!(a == Step::Val, "COV block of zero-sized values entered");
	if len == 0 {
		assert!(a == Step::End, "OBL C17.empty_body.end_of_stream");
		assert!(!r.pretend_eof_because_yielded_unrecoverable_error, "OBL C17.empty_body.not_an_error");
	} else {
		assert!(a != Step::End, "OBL C17.truncated.no_silent_end_of_stream_inside_a_block");
	}
	if a == Step::Error {
		assert!(r.pretend_eof_because_yielded_unrecoverable_error, "OBL C17.framing_error.latches_end_of_stream");
	}
	if a == Step::Val {
		assert!(matches!(r.reader_state, ReaderState::InBlock { .. }), "OBL C17.value.only_from_inside_a_block");
		assert!(!r.pretend_eof_because_yielded_unrecoverable_error, "OBL C17.value.nothing_latched");
	}
	std::mem::forget(r);
}


//@ harness: c17_not_in_block_step_4
//@   props: C17
//@   tier: thorough
//@   kind: complete
//@   fn: Reader::deserialize_seed_next / deserialize_next_inner from state NotInBlock (block header: count varint, size varint, CompressionCodec::state -> SliceRead::take), datum decoder abstracted by a seed that ignores its deserializer
//@   domain: every file body of 0..=4 bytes (too short to hold a complete block), every sync marker; one call
//@   post: empty input => end of stream; non-empty => never a silent end of stream; every error sets the end-of-stream latch (so by c17_broken_and_eof_latches it is reported once); a yielded value leaves the reader InBlock
#[kani::proof]
#[kani::unwind(5)]
#[kani::stub(alloc::fmt::format, stub_format)]
#[kani::stub(flate2::Decompress::decompress, verif_unreachable_inflate)]
#[kani::stub(flate2::Decompress::new, verif_unreachable_inflate_new)]
fn c17_not_in_block_step_4() {
	let buf: [u8; 4] = kani::any();
	let len: usize = kani::any();
	kani::assume(len <= 4);
	let sync: [u8; 16] = kani::any();
	let mut r = reader_over!(&buf[..len], sync);
	let a = step(&mut r);
	kani::cover!(len == 1 && a == Step::Error, "COV cut inside the count varint");
	kani::cover!(len == 2 && buf[0] == 2 && a == Step::Error, "COV cut inside the size varint");
	kani::cover!(a == Step::Val, "COV block of zero-sized values entered");
	if len == 0 {
		assert!(a == Step::End, "OBL C17.empty_body.end_of_stream");
		assert!(!r.pretend_eof_because_yielded_unrecoverable_error, "OBL C17.empty_body.not_an_error");
	} else {
		assert!(a != Step::End, "OBL C17.truncated.no_silent_end_of_stream_inside_a_block");
	}
	if a == Step::Error {
		assert!(r.pretend_eof_because_yielded_unrecoverable_error, "OBL C17.framing_error.latches_end_of_stream");
	}
	if a == Step::Val {
		assert!(matches!(r.reader_state, ReaderState::InBlock { .. }), "OBL C17.value.only_from_inside_a_block");
		assert!(!r.pretend_eof_because_yielded_unrecoverable_error, "OBL C17.value.nothing_latched");
	}
	std::mem::forget(r);
}


macro_rules! leave_block_step {
	($name:ident, $size:expr, $eat:expr) => {
		#[kani::proof]
		#[kani::unwind(5)]
		#[kani::stub(alloc::fmt::format, stub_format)]
		#[kani::stub(flate2::Decompress::decompress, verif_unreachable_inflate)]
		#[kani::stub(flate2::Decompress::new, verif_unreachable_inflate_new)]
		fn $name() {
			use crate::de::read::take::Take;
			use std::io::BufRead;
			let buf: [u8; $size + 16] = kani::any();
			let sync: [u8; 16] = kani::any();
			let mut r = reader_over!(&buf[..], sync);
			let mut sub = match de::read::SliceRead::new(&buf[..]).take($size) {
				Ok(s) => s,
				Err(e) => {
					std::mem::forget(e);
					return;
				}
			};
			sub.consume($eat);
			let old = std::mem::replace(
				&mut r.reader_state,
				ReaderState::InBlock {
					codec_data: DecompressionState::Null {
						deserializer_state: de::DeserializerState::with_config(
							sub,
							de::DeserializerConfig::from_schema_node(NodeRef::from_static(&N_LONG)),
						),
						decompression_buffer: Vec::new(),
					},
					n_objects_in_block: 0,
				},
			);
			std::mem::forget(old);
			let a = step(&mut r);
			let trailing_ok = buf[$size..$size + 16] == sync[..];
			kani::cover!(trailing_ok, "COV trailing marker equals the header's");
			kani::cover!(!trailing_ok, "COV trailing marker differs");
			if $eat < $size {
				assert!(a == Step::Error, "OBL C17.corruption.data_left_in_block_is_an_error");
			} else if !trailing_ok {
				assert!(a == Step::Error, "OBL C17.corruption.sync_marker_mismatch_is_an_error");
			} else {
				assert!(a == Step::End, "OBL C17.block_end.matching_marker_then_exhausted_input_is_end_of_stream");
				assert!(!r.pretend_eof_because_yielded_unrecoverable_error, "OBL C17.block_end.not_an_error");
			}
			if a == Step::Error {
				assert!(r.pretend_eof_because_yielded_unrecoverable_error, "OBL C17.framing_error.latches_end_of_stream");
			}
			std::mem::forget(r);
		}
	};
}

//@ harness: c17_leave_block_step_empty_block
//@   props: C17
//@   tier: quick
//@   kind: complete
//@   fn: Reader::deserialize_next_inner from state InBlock with no objects left: DecompressionState::into_source_reader_and_config -> SliceReadTake::into_left_after_take, read_const_size_buf::<16>, sync marker comparison; then the NotInBlock end-of-input test
//@   domain: block of declared size 0 followed by any 16 bytes and nothing else; every header sync marker; one call
//@   post: trailing marker differs from the header's => Err and the end-of-stream latch is set; equal => the block is left and the exhausted input is a clean end of stream (no error latched)
leave_block_step!(c17_leave_block_step_empty_block, 0, 0);

//@ harness: c17_leave_block_step_consumed_block
//@   props: C17
//@   tier: quick
//@   kind: complete
//@   fn: Reader::deserialize_next_inner from state InBlock with no objects left (as above)
//@   domain: block of declared size 1 whose byte was consumed, followed by any 16 bytes and nothing else; every header sync marker; one call
//@   post: as c17_leave_block_step_empty_block; the marker is compared at the position right after the declared block size
leave_block_step!(c17_leave_block_step_consumed_block, 1, 1);

//@ harness: c17_leave_block_step_data_left
//@   props: C17
//@   tier: quick
//@   kind: complete
//@   fn: Reader::deserialize_next_inner from state InBlock with no objects left (as above)
//@   domain: block of declared size 1 whose byte was NOT consumed by the declared number of objects (declared size / object count disagree with the contents), followed by any 16 bytes
//@   post: Err whatever follows, and the end-of-stream latch is set (reported once by c17_broken_and_eof_latches)
leave_block_step!(c17_leave_block_step_data_left, 1, 0);

macro_rules! in_block_value_step {
	($name:ident, $n:expr) => {
		#[kani::proof]
		#[kani::unwind(5)]
		#[kani::stub(alloc::fmt::format, stub_format)]
		#[kani::stub(flate2::Decompress::decompress, verif_unreachable_inflate)]
		#[kani::stub(flate2::Decompress::new, verif_unreachable_inflate_new)]
		fn $name() {
			use crate::de::read::take::Take;
			let buf: [u8; 2] = kani::any();
			let sync: [u8; 16] = kani::any();
			const N: usize = $n;
			let mut r = reader_over!(&buf[..], sync);
			let sub = match de::read::SliceRead::new(&buf[..]).take(1) {
				Ok(s) => s,
				Err(e) => {
					std::mem::forget(e);
					return;
				}
			};
			let old = std::mem::replace(
				&mut r.reader_state,
				ReaderState::InBlock {
					codec_data: DecompressionState::Null {
						deserializer_state: de::DeserializerState::with_config(
							sub,
							de::DeserializerConfig::from_schema_node(NodeRef::from_static(&N_LONG)),
						),
						decompression_buffer: Vec::new(),
					},
					n_objects_in_block: N,
				},
			);
			std::mem::forget(old);
			let a = step(&mut r);
			assert!(a == Step::Val, "OBL C17.in_block.one_value_per_call");
			assert!(
				matches!(r.reader_state, ReaderState::InBlock { n_objects_in_block, .. } if n_objects_in_block == N - 1),
				"OBL C17.in_block.count_decreases_by_one_and_state_stays_in_block"
			);
			assert!(!r.pretend_eof_because_yielded_unrecoverable_error, "OBL C17.in_block.nothing_latched");
			std::mem::forget(r);
		}
	};
}

//@ harness: c17_in_block_value_step_last
//@   props: C17
//@   tier: quick
//@   kind: complete
//@   fn: Reader::deserialize_next_inner from state InBlock with exactly one object left
//@   domain: any block byte, any sync marker; datum decoder abstracted by the ignoring seed
//@   post: exactly one value is requested from the datum decoder, the remaining count becomes 0, the reader stays InBlock (the block is left by the NEXT call: c17_leave_block_step_*), nothing is latched
in_block_value_step!(c17_in_block_value_step_last, 1);

//@ harness: c17_in_block_value_step_max
//@   props: C17
//@   tier: quick
//@   kind: complete
//@   fn: Reader::deserialize_next_inner from state InBlock with usize::MAX objects declared (hostile count)
//@   domain: any block byte, any sync marker
//@   post: one value per call, count decreases by one - no allocation or loop proportional to the declared count
in_block_value_step!(c17_in_block_value_step_max, usize::MAX);

//@ harness: c17_reader_canary
//@   props: C17
//@   tier: quick
//@   kind: canary
#[kani::proof]
#[kani::unwind(5)]
#[kani::stub(alloc::fmt::format, stub_format)]
#[kani::stub(flate2::Decompress::decompress, verif_unreachable_inflate)]
fn c17_reader_canary() {
	let buf: [u8; 4] = kani::any();
	let sync: [u8; 16] = kani::any();
	let mut r = reader_over!(&buf[..], sync);
	r.reader_state = ReaderState::Broken;
	assert!(next(&mut r) == Out::End, "OBL canary");
	std::mem::forget(r);
}
