//@ unit: ser_cells
//@ inject-into: serde_avro_fast/src/ser/serializer/mod.rs
//@ anchor: serde_avro_fast/src/ser/serializer/mod.rs :: fn serialize_integer<N>\(self, num: N\) -> Result<\(\), SerError>
//@ anchor: serde_avro_fast/src/ser/serializer/mod.rs :: fn serialize_f64\(self, v: f64\)
//@ anchor: serde_avro_fast/src/ser/serializer/mod.rs :: fn serialize_str\(self, v: &str\)
//@ anchor: serde_avro_fast/src/ser/serializer/mod.rs :: fn serialize_bytes\(self, v: &\[u8\]\)
//@ anchor: serde_avro_fast/src/ser/serializer/mod.rs :: fn write_length_delimited\(&mut self, data: &\[u8\]\)
//@ requires-unit: schema_helper
//@ include: spec
//@ include: common

// ---------------------------------------------------------------------------------------------
// C02 / C01 cell contracts: one (serde call x schema node kind) cell at a time, on the real
// `impl Serializer for DatumSerializer`, nodes given as `static SchemaNode`s:
//     ser(node, call(v)) is Err, or Ok with output == spec encoding of logical(v);
//     Err whenever logical(v) is not representable in node;      (C02)
//     Ok whenever it is representable (conforming value)          (C01, encode half)
// ---------------------------------------------------------------------------------------------

use std::mem::ManuallyDrop;
use crate::schema::self_referential::__verif_schema_helper::{
	decimal_bytes_node, decimal_fixed_node, fixed_node, ARRAY_OF_LONG, ENUM2,
};

/// Run one Serializer call against `node` with a fresh configuration and a Vec sink.
fn ser_with(
	node: &'static SchemaNode<'static>,
	call: impl FnOnce(DatumSerializer<'_, '_, 'static, Vec<u8>>) -> Result<(), SerError>,
) -> Result<Vec<u8>, SerError> {
	let mut config = ManuallyDrop::new(SerializerConfig::new_with_optional_schema(None));
	let mut state = ManuallyDrop::new(SerializerState::from_writer(Vec::new(), &mut config));
	match call(state.serializer_overriding_schema_root(node)) {
		Ok(()) => Ok(ManuallyDrop::into_inner(state).into_writer()),
		Err(e) => Err(e),
	}
}

/// Frame obligation used by harnesses on composite (enum/record/...) nodes: for those nodes CBMC's
/// symbolic execution does not constant-fold the node kind, so the recursive union arm of every
/// `match self.schema_node` stays syntactically reachable and is unwound 12 levels deep (does not
/// finish).  The arm is replaced by an assertion that it is NOT entered - an obligation the solver
/// discharges, not an assumption.  (Inherent method so that `impl FnOnce(Self)` matches for Kani.)
impl<'r, 'c, 's, W: Write> DatumSerializer<'r, 'c, 's, W> {
	pub(crate) fn verif_unreachable_union_arm<O>(
		self,
		_union: &'s Union<'s>,
		_variant_lookup: UnionVariantLookupKey,
		_with_serializer: impl FnOnce(Self) -> Result<O, SerError>,
	) -> Result<O, SerError> {
		assert!(false, "OBL frame.union_arm_not_entered_for_non_union_node");
		Err(SerError::new("unreachable"))
	}
}

/// Abstract "value whose serialization fails after having written k bytes" (any k <= 3, any bytes):
/// stands for a type mismatch at arbitrary depth inside a composite value.  The generic `S` is
/// reinterpreted as the one concrete serializer the container writer passes (checked by type name
/// and size - harness only), junk is appended straight to its output buffer, then Err.
pub(crate) struct PartialThenFail {
	pub(crate) junk: [u8; 3],
	pub(crate) k: usize,
}
impl Serialize for PartialThenFail {
	fn serialize<S: Serializer>(&self, s: S) -> Result<S::Ok, S::Error> {
		type Concrete<'r, 'c, 's> = DatumSerializer<'r, 'c, 's, Vec<u8>>;
		assert!(
			std::any::type_name::<S>().len() == std::any::type_name::<Concrete<'static, 'static, 'static>>().len()
				&& std::mem::size_of::<S>() == std::mem::size_of::<Concrete<'static, 'static, 'static>>(),
			"harness: unexpected serializer type"
		);
		// SAFETY (harness only): same type up to lifetimes
		let ds: Concrete<'_, '_, '_> = unsafe { std::mem::transmute_copy(&s) };
		std::mem::forget(s);
		ds.state.writer.extend_from_slice(&self.junk[..self.k]);
		Err(<S::Error as serde::ser::Error>::custom("value does not match the schema"))
	}
}

/// The cell postcondition for varint-encoded nodes.
fn check_varint_cell(r: Result<Vec<u8>, SerError>, expected: Option<([u8; 10], usize)>) {
	match (&r, expected) {
		(Ok(bytes), Some((e, n))) => {
			assert!(bytes.len() == n && bytes[..] == e[..n], "OBL C02.integer.ok_bytes_are_spec_zigzag_varint");
		}
		(Ok(_), None) => assert!(false, "OBL C02.integer.out_of_range_must_be_err"),
		(Err(_), Some(_)) => assert!(false, "OBL C01.integer.conforming_value_must_serialize"),
		(Err(_), None) => {}
	}
	std::mem::forget(r);
}

macro_rules! int_cell {
	($node:expr, $t:ty, $f:ident, $spec:ident) => {{
		let v: $t = kani::any();
		let wide: Option<i128> = i128::try_from(v).ok();
		kani::cover!($spec(wide).is_some(), "COV representable");
		let r = ser_with($node, |s| s.$f(v));
		check_varint_cell(r, $spec(wide));
	}};
}

macro_rules! int_cells_all_widths {
	($name:ident, $node:expr, $spec:ident) => {
		#[kani::proof]
		#[kani::unwind(12)]
		#[kani::stub(alloc::fmt::format, stub_format)]
		fn $name() {
			static NODE: SchemaNode<'static> = $node;
			int_cell!(&NODE, i8, serialize_i8, $spec);
			int_cell!(&NODE, i16, serialize_i16, $spec);
			int_cell!(&NODE, i32, serialize_i32, $spec);
			int_cell!(&NODE, i64, serialize_i64, $spec);
			int_cell!(&NODE, i128, serialize_i128, $spec);
			int_cell!(&NODE, u8, serialize_u8, $spec);
			int_cell!(&NODE, u16, serialize_u16, $spec);
			int_cell!(&NODE, u32, serialize_u32, $spec);
			int_cell!(&NODE, u64, serialize_u64, $spec);
			int_cell!(&NODE, u128, serialize_u128, $spec);
		}
	};
}

//@ harness: c02_int_widths_to_int
//@   props: C02, C01
//@   tier: quick
//@   kind: complete
//@   fn: ser::serializer::DatumSerializer::serialize_{i8..u128} -> serialize_integer (node int)
//@   domain: every value of every integer width i8,i16,i32,i64,i128,u8,u16,u32,u64,u128
//@   post: Ok iff value in i32 range, and then output == zig-zag varint of the value per spec; else Err
int_cells_all_widths!(c02_int_widths_to_int, SchemaNode::Int, spec_enc_as_int);

//@ harness: c02_int_widths_to_date
//@   props: C02, C01
//@   tier: thorough
//@   kind: complete
//@   fn: ser::serializer::DatumSerializer::serialize_integer (node date)
//@   domain: every value of every integer width
//@   post: as node int
int_cells_all_widths!(c02_int_widths_to_date, SchemaNode::Date, spec_enc_as_int);

//@ harness: c02_int_widths_to_time_millis
//@   props: C02, C01
//@   tier: thorough
//@   kind: complete
//@   fn: ser::serializer::DatumSerializer::serialize_integer (node time-millis)
//@   domain: every value of every integer width
//@   post: as node int
int_cells_all_widths!(c02_int_widths_to_time_millis, SchemaNode::TimeMillis, spec_enc_as_int);

//@ harness: c02_int_widths_to_long
//@   props: C02, C01
//@   tier: quick
//@   kind: complete
//@   fn: ser::serializer::DatumSerializer::serialize_{i8..u128} -> serialize_integer (node long)
//@   domain: every value of every integer width
//@   post: Ok iff value in i64 range, and then output == zig-zag varint per spec; else Err
int_cells_all_widths!(c02_int_widths_to_long, SchemaNode::Long, spec_enc_as_long);

//@ harness: c02_int_widths_to_time_micros
//@   props: C02, C01
//@   tier: thorough
//@   kind: complete
//@   fn: ser::serializer::DatumSerializer::serialize_integer (node time-micros)
//@   domain: every value of every integer width
//@   post: as node long
int_cells_all_widths!(c02_int_widths_to_time_micros, SchemaNode::TimeMicros, spec_enc_as_long);

//@ harness: c02_int_widths_to_timestamp_millis
//@   props: C02, C01
//@   tier: thorough
//@   kind: complete
//@   fn: ser::serializer::DatumSerializer::serialize_integer (node timestamp-millis)
//@   domain: every value of every integer width
//@   post: as node long
int_cells_all_widths!(c02_int_widths_to_timestamp_millis, SchemaNode::TimestampMillis, spec_enc_as_long);

//@ harness: c02_int_widths_to_timestamp_micros
//@   props: C02, C01
//@   tier: thorough
//@   kind: complete
//@   fn: ser::serializer::DatumSerializer::serialize_integer (node timestamp-micros)
//@   domain: every value of every integer width
//@   post: as node long
int_cells_all_widths!(c02_int_widths_to_timestamp_micros, SchemaNode::TimestampMicros, spec_enc_as_long);

// ---- integer presented to a node that cannot hold an integer => Err

macro_rules! int_rejected {
	($name:ident, $node:expr) => {
		#[kani::proof]
		#[kani::unwind(12)]
		#[kani::stub(alloc::fmt::format, stub_format)]
		#[kani::stub(core::fmt::write, stub_fmt_write)]
		fn $name() {
			static NODE: SchemaNode<'static> = $node;
			let a: i64 = kani::any();
			let r = ser_with(&NODE, |s| s.serialize_i64(a));
			assert!(r.is_err(), "OBL C02.integer.unsupported_node_is_err");
			std::mem::forget(r);
			let b: u8 = kani::any();
			let r = ser_with(&NODE, |s| s.serialize_u8(b));
			assert!(r.is_err(), "OBL C02.integer.unsupported_node_is_err");
			std::mem::forget(r);
			let c: u128 = kani::any();
			let r = ser_with(&NODE, |s| s.serialize_u128(c));
			assert!(r.is_err(), "OBL C02.integer.unsupported_node_is_err");
			std::mem::forget(r);
		}
	};
}

//@ harness: c02_int_rejected_by_non_numeric_nodes
//@   props: C02
//@   tier: quick
//@   kind: complete
//@   fn: ser::serializer::DatumSerializer::serialize_integer (fallthrough arm)
//@   domain: every i64 / u8 / u128 against each of null, boolean, float, double, bytes, string, uuid, duration
//@   post: Err (an integer is never silently written as some other type)
#[kani::proof]
#[kani::unwind(12)]
#[kani::stub(alloc::fmt::format, stub_format)]
#[kani::stub(core::fmt::write, stub_fmt_write)]
fn c02_int_rejected_by_non_numeric_nodes() {
	static NODES: [SchemaNode<'static>; 8] = [
		SchemaNode::Null,
		SchemaNode::Boolean,
		SchemaNode::Float,
		SchemaNode::Double,
		SchemaNode::Bytes,
		SchemaNode::String,
		SchemaNode::Uuid,
		SchemaNode::Duration,
	];
	let a: i64 = kani::any();
	let c: u128 = kani::any();
	let mut i = 0;
	while i < 8 {
		let r = ser_with(&NODES[i], |s| s.serialize_i64(a));
		assert!(r.is_err(), "OBL C02.integer.unsupported_node_is_err");
		std::mem::forget(r);
		let r = ser_with(&NODES[i], |s| s.serialize_u128(c));
		assert!(r.is_err(), "OBL C02.integer.unsupported_node_is_err");
		std::mem::forget(r);
		i += 1;
	}
}

// ---- floats, bool, unit

//@ harness: c02_floats
//@   props: C02, C01
//@   tier: quick
//@   kind: complete
//@   fn: ser::serializer::DatumSerializer::{serialize_f32, serialize_f64}
//@   domain: all 2^32 f32 bit patterns on float and double nodes; all 2^64 f64 bit patterns on double
//@   post: f32->float: 4 bytes little-endian of the bit pattern (NaN payloads preserved); f64->double: 8 bytes; f32->double: Err
#[kani::proof]
#[kani::unwind(10)]
#[kani::stub(alloc::fmt::format, stub_format)]
fn c02_floats() {
	static F: SchemaNode<'static> = SchemaNode::Float;
	static D: SchemaNode<'static> = SchemaNode::Double;
	let b32: u32 = kani::any();
	let b64: u64 = kani::any();
	let r = ser_with(&F, |s| s.serialize_f32(f32::from_bits(b32)));
	assert!(matches!(&r, Ok(o) if o[..] == spec_enc_f32_bits(b32)[..]), "OBL C02.float.f32_to_float_exact_bits");
	std::mem::forget(r);
	let r = ser_with(&D, |s| s.serialize_f64(f64::from_bits(b64)));
	assert!(matches!(&r, Ok(o) if o[..] == spec_enc_f64_bits(b64)[..]), "OBL C02.float.f64_to_double_exact_bits");
	std::mem::forget(r);
	let r = ser_with(&D, |s| s.serialize_f32(f32::from_bits(b32)));
	assert!(r.is_err(), "OBL C02.float.f32_to_double_is_err");
	std::mem::forget(r);
}

//@ harness: c02_f64_to_float_exact_only
//@   props: C02
//@   tier: quick
//@   kind: complete
//@   fn: ser::serializer::DatumSerializer::serialize_f64 (node float)
//@   domain: all 2^64 f64 bit patterns presented to a `float` node
//@   post: Ok => the 4 bytes written decode to the same logical value (the f64 is exactly representable as f32, or NaN); a value float cannot represent => Err
#[kani::proof]
#[kani::unwind(10)]
#[kani::stub(alloc::fmt::format, stub_format)]
fn c02_f64_to_float_exact_only() {
	static F: SchemaNode<'static> = SchemaNode::Float;
	let b64: u64 = kani::any();
	let v = f64::from_bits(b64);
	let r = ser_with(&F, |s| s.serialize_f64(v));
	if let Ok(o) = &r {
		assert!(o.len() == 4, "OBL C02.float.f64_to_float_len");
		let back = f32::from_le_bytes([o[0], o[1], o[2], o[3]]);
		assert!(v.is_nan() || (back as f64) == v, "OBL C02.float.f64_to_float_must_not_change_value");
	}
	std::mem::forget(r);
}

//@ harness: c02_bool_unit
//@   props: C02, C01
//@   tier: quick
//@   kind: complete
//@   fn: ser::serializer::DatumSerializer::{serialize_bool, serialize_unit, serialize_none, serialize_unit_struct, serialize_unit_variant}
//@   domain: both booleans; null/boolean/long nodes
//@   post: bool->boolean: single byte 0/1; unit/none/unit-struct->null: empty output; bool->long, unit->long, unit_variant("X")->null: Err
#[kani::proof]
#[kani::unwind(10)]
#[kani::stub(alloc::fmt::format, stub_format)]
#[kani::stub(core::fmt::write, stub_fmt_write)]
fn c02_bool_unit() {
	static B: SchemaNode<'static> = SchemaNode::Boolean;
	static N: SchemaNode<'static> = SchemaNode::Null;
	static L: SchemaNode<'static> = SchemaNode::Long;
	let v: bool = kani::any();
	let r = ser_with(&B, |s| s.serialize_bool(v));
	assert!(matches!(&r, Ok(o) if o.len() == 1 && o[0] == (if v { 1 } else { 0 })), "OBL C02.bool.single_byte_0_or_1");
	std::mem::forget(r);
	let r = ser_with(&L, |s| s.serialize_bool(v));
	assert!(r.is_err(), "OBL C02.bool.to_long_is_err");
	std::mem::forget(r);
	let r = ser_with(&N, |s| s.serialize_unit());
	assert!(matches!(&r, Ok(o) if o.is_empty()), "OBL C02.null.unit_is_zero_bytes");
	std::mem::forget(r);
	let r = ser_with(&N, |s| s.serialize_none());
	assert!(matches!(&r, Ok(o) if o.is_empty()), "OBL C02.null.none_is_zero_bytes");
	std::mem::forget(r);
	let r = ser_with(&N, |s| s.serialize_unit_struct("Anything"));
	assert!(matches!(&r, Ok(o) if o.is_empty()), "OBL C02.null.unit_struct_is_zero_bytes");
	std::mem::forget(r);
	let r = ser_with(&N, |s| s.serialize_unit_variant("E", 0, "Null"));
	assert!(matches!(&r, Ok(o) if o.is_empty()), "OBL C02.null.unit_variant_null_is_zero_bytes");
	std::mem::forget(r);
	let r = ser_with(&N, |s| s.serialize_unit_variant("E", 0, "Other"));
	assert!(r.is_err(), "OBL C02.null.other_unit_variant_is_err");
	std::mem::forget(r);
	let r = ser_with(&L, |s| s.serialize_unit());
	assert!(r.is_err(), "OBL C02.null.unit_to_long_is_err");
	std::mem::forget(r);
	let r = ser_with(&B, |s| s.serialize_unit());
	assert!(r.is_err(), "OBL C02.null.unit_to_boolean_is_err");
	std::mem::forget(r);
}

// ---- length-delimited / fixed

fn check_len_delimited(r: &Result<Vec<u8>, SerError>, data: &[u8]) {
	let (e, n) = spec_enc_long(data.len() as i64);
	match r {
		Ok(o) => {
			assert!(o.len() == n + data.len(), "OBL C02.bytes.length_is_prefix_plus_payload");
			assert!(o[..n] == e[..n], "OBL C02.bytes.prefix_is_spec_long_of_length");
			assert!(o[n..] == data[..], "OBL C02.bytes.payload_verbatim");
		}
		Err(_) => assert!(false, "OBL C01.bytes.conforming_value_must_serialize"),
	}
}

//@ harness: c02_bytes_presentation
//@   props: C02, C01
//@   tier: quick
//@   kind: bounded(payload length <= 3, content symbolic)
//@   fn: ser::serializer::DatumSerializer::serialize_bytes + SerializerState::write_length_delimited
//@   domain: every byte content of length 0..=3 on bytes and string nodes
//@   post: output == spec long(len) ++ payload, nothing else
#[kani::proof]
#[kani::unwind(7)]
#[kani::stub(alloc::fmt::format, stub_format)]
fn c02_bytes_presentation() {
	static BY: SchemaNode<'static> = SchemaNode::Bytes;
	static ST: SchemaNode<'static> = SchemaNode::String;
	let buf: [u8; 3] = kani::any();
	let len: usize = kani::any();
	kani::assume(len <= 3);
	let data = &buf[..len];
	let r = ser_with(&BY, |s| s.serialize_bytes(data));
	check_len_delimited(&r, data);
	std::mem::forget(r);
	let r = ser_with(&ST, |s| s.serialize_bytes(data));
	check_len_delimited(&r, data);
	std::mem::forget(r);
}

//@ harness: c02_bytes_presentation_6
//@   props: C02, C01
//@   tier: thorough
//@   kind: bounded(payload length <= 6, content symbolic)
//@   fn: ser::serializer::DatumSerializer::serialize_bytes + SerializerState::write_length_delimited
//@   domain: every byte content of length 0..=6 on bytes and string nodes
//@   post: output == spec long(len) ++ payload, nothing else
#[kani::proof]
#[kani::unwind(10)]
#[kani::stub(alloc::fmt::format, stub_format)]
fn c02_bytes_presentation_6() {
	static BY: SchemaNode<'static> = SchemaNode::Bytes;
	static ST: SchemaNode<'static> = SchemaNode::String;
	let buf: [u8; 6] = kani::any();
	let len: usize = kani::any();
	kani::assume(len <= 6);
	let data = &buf[..len];
	let r = ser_with(&BY, |s| s.serialize_bytes(data));
	check_len_delimited(&r, data);
	std::mem::forget(r);
	let r = ser_with(&ST, |s| s.serialize_bytes(data));
	check_len_delimited(&r, data);
	std::mem::forget(r);
}

//@ harness: c02_str_presentation
//@   props: C02, C01
//@   tier: quick
//@   kind: bounded(payload length <= 3, ASCII content symbolic)
//@   fn: ser::serializer::DatumSerializer::serialize_str + SerializerState::write_length_delimited
//@   domain: every ASCII str of length 0..=3 on string, bytes and uuid nodes
//@   post: output == spec long(len) ++ the str's bytes, nothing else
#[kani::proof]
#[kani::unwind(7)]
#[kani::stub(alloc::fmt::format, stub_format)]
fn c02_str_presentation() {
	static BY: SchemaNode<'static> = SchemaNode::Bytes;
	static ST: SchemaNode<'static> = SchemaNode::String;
	static UU: SchemaNode<'static> = SchemaNode::Uuid;
	let buf: [u8; 3] = kani::any();
	let len: usize = kani::any();
	kani::assume(len <= 3);
	// content restricted to ASCII so that it is a valid &str (UTF-8 validity is a precondition of
	// &str itself, not of the serializer)
	kani::assume(buf[0] < 128 && buf[1] < 128 && buf[2] < 128);
	let data = &buf[..len];
	let st = unsafe { std::str::from_utf8_unchecked(data) };
	let r = ser_with(&ST, |s| s.serialize_str(st));
	check_len_delimited(&r, data);
	std::mem::forget(r);
	let r = ser_with(&BY, |s| s.serialize_str(st));
	check_len_delimited(&r, data);
	std::mem::forget(r);
	let r = ser_with(&UU, |s| s.serialize_str(st));
	check_len_delimited(&r, data);
	std::mem::forget(r);
}

//@ harness: c02_bytes_str_rejected
//@   props: C02
//@   tier: quick
//@   kind: bounded(payload length <= 2)
//@   fn: ser::serializer::DatumSerializer::{serialize_bytes, serialize_str} fallthrough arms
//@   domain: any bytes/str of length <= 2 against null, boolean, int, long, float, double (+ date, timestamp-millis)
//@   post: Err
#[kani::proof]
#[kani::unwind(10)]
#[kani::stub(alloc::fmt::format, stub_format)]
#[kani::stub(core::fmt::write, stub_fmt_write)]
fn c02_bytes_str_rejected() {
	static NODES: [SchemaNode<'static>; 8] = [
		SchemaNode::Null,
		SchemaNode::Boolean,
		SchemaNode::Int,
		SchemaNode::Long,
		SchemaNode::Float,
		SchemaNode::Double,
		SchemaNode::Date,
		SchemaNode::TimestampMillis,
	];
	let buf: [u8; 2] = kani::any();
	kani::assume(buf[0] < 128 && buf[1] < 128);
	let len: usize = kani::any();
	kani::assume(len <= 2);
	let data = &buf[..len];
	let st = unsafe { std::str::from_utf8_unchecked(data) };
	let mut i = 0;
	while i < 8 {
		let r = ser_with(&NODES[i], |s| s.serialize_bytes(data));
		assert!(r.is_err(), "OBL C02.bytes.unsupported_node_is_err");
		std::mem::forget(r);
		let r = ser_with(&NODES[i], |s| s.serialize_str(st));
		assert!(r.is_err(), "OBL C02.str.unsupported_node_is_err");
		std::mem::forget(r);
		i += 1;
	}
}

static FIXED3: SchemaNode<'static> = fixed_node(3);

//@ harness: c02_fixed_and_duration_bytes
//@   props: C02, C01
//@   tier: quick
//@   kind: complete
//@   fn: ser::serializer::DatumSerializer::{serialize_bytes, serialize_str} (nodes fixed(3), duration)
//@   domain: fixed(3): every content and every presented length 0..=5; duration: every 12-byte content and every presented length 0..=13
//@   post: Ok iff presented length == size (12 for duration), output == the bytes verbatim (no prefix); any other length => Err
#[kani::proof]
#[kani::unwind(16)]
#[kani::stub(alloc::fmt::format, stub_format)]
fn c02_fixed_and_duration_bytes() {
	static DU: SchemaNode<'static> = SchemaNode::Duration;
	let buf: [u8; 13] = kani::any();
	let len: usize = kani::any();
	kani::assume(len <= 5);
	let data = &buf[..len];
	let r = ser_with(&FIXED3, |s| s.serialize_bytes(data));
	match &r {
		Ok(o) => assert!(len == 3 && o[..] == data[..], "OBL C02.fixed.ok_only_for_exact_size_verbatim"),
		Err(_) => assert!(len != 3, "OBL C01.fixed.exact_size_must_serialize"),
	}
	std::mem::forget(r);
	kani::assume(buf[0] < 128 && buf[1] < 128 && buf[2] < 128 && buf[3] < 128 && buf[4] < 128);
	let st = unsafe { std::str::from_utf8_unchecked(data) };
	let r = ser_with(&FIXED3, |s| s.serialize_str(st));
	match &r {
		Ok(o) => assert!(len == 3 && o[..] == data[..], "OBL C02.fixed.str_ok_only_for_exact_size_verbatim"),
		Err(_) => assert!(len != 3, "OBL C01.fixed.str_exact_size_must_serialize"),
	}
	std::mem::forget(r);
	let dlen: usize = kani::any();
	kani::assume(dlen <= 13);
	let ddata = &buf[..dlen];
	let r = ser_with(&DU, |s| s.serialize_bytes(ddata));
	match &r {
		Ok(o) => assert!(dlen == 12 && o[..] == ddata[..], "OBL C02.duration.raw_ok_only_for_12_bytes_verbatim"),
		Err(_) => assert!(dlen != 12, "OBL C01.duration.raw_12_bytes_must_serialize"),
	}
	std::mem::forget(r);
}

// ---- integer -> decimal (the hand-rolled path of serialize_integer)

static DEC_BYTES_S0: SchemaNode<'static> = decimal_bytes_node(0);
static DEC_BYTES_S2: SchemaNode<'static> = decimal_bytes_node(2);

/// Ok output must be: spec long(payload len) ++ payload, payload a two's-complement big-endian
/// encoding (any length 1..=16) whose value is exactly `expect`.
fn check_decimal_bytes(r: &Result<Vec<u8>, SerError>, expect: Option<i128>) {
	match (r, expect) {
		(Ok(o), Some(val)) => {
			assert!(o.len() >= 2, "OBL C02.decimal_bytes.has_prefix_and_payload");
			let plen = o.len() - 1;
			assert!(plen <= 16 && o[0] == (2 * plen) as u8, "OBL C02.decimal_bytes.prefix_is_payload_length");
			assert!(spec_twos_complement(&o[1..]) == val, "OBL C02.decimal_bytes.payload_decodes_to_the_value");
		}
		(Ok(_), None) => assert!(false, "OBL C02.decimal_bytes.unrepresentable_must_be_err"),
		(Err(_), Some(_)) => assert!(false, "OBL C01.decimal_bytes.conforming_value_must_serialize"),
		(Err(_), None) => {}
	}
}

//@ harness: c02_int_to_decimal_bytes
//@   props: C02, C01
//@   tier: quick
//@   kind: complete
//@   fn: ser::serializer::DatumSerializer::serialize_integer (Decimal / DecimalRepr::Bytes arm)
//@   domain: every i64 and every u64 presented to decimal(bytes, scale 0); every i64 to decimal(bytes, scale 2)
//@   post: Ok with payload whose two's-complement value == v * 10^scale (sign bit respected), length prefix == payload length
#[kani::proof]
#[kani::unwind(19)]
#[kani::stub(alloc::fmt::format, stub_format)]
fn c02_int_to_decimal_bytes() {
	let v: i64 = kani::any();
	let r = ser_with(&DEC_BYTES_S0, |s| s.serialize_i64(v));
	kani::cover!(v == 128, "COV boundary 128");
	kani::cover!(v == -129, "COV boundary -129");
	check_decimal_bytes(&r, Some(v as i128));
	std::mem::forget(r);
	let u: u64 = kani::any();
	let r = ser_with(&DEC_BYTES_S0, |s| s.serialize_u64(u));
	check_decimal_bytes(&r, Some(u as i128));
	std::mem::forget(r);
	let w: i32 = kani::any();
	let r = ser_with(&DEC_BYTES_S2, |s| s.serialize_i32(w));
	check_decimal_bytes(&r, Some(w as i128 * 100));
	std::mem::forget(r);
}

//@ harness: c02_i128_to_decimal_bytes
//@   props: C02, C01
//@   tier: thorough
//@   kind: complete
//@   fn: ser::serializer::DatumSerializer::serialize_integer (Decimal / DecimalRepr::Bytes arm, i128/u128 presentations)
//@   domain: every i128 and u128 presented to decimal(bytes, scale 0)
//@   post: i128: Ok, payload value == v; u128 > i128::MAX: Err
#[kani::proof]
#[kani::unwind(19)]
#[kani::stub(alloc::fmt::format, stub_format)]
fn c02_i128_to_decimal_bytes() {
	let v: i128 = kani::any();
	let r = ser_with(&DEC_BYTES_S0, |s| s.serialize_i128(v));
	check_decimal_bytes(&r, Some(v));
	std::mem::forget(r);
	let u: u128 = kani::any();
	let r = ser_with(&DEC_BYTES_S0, |s| s.serialize_u128(u));
	check_decimal_bytes(&r, i128::try_from(u).ok());
	std::mem::forget(r);
}

macro_rules! dec_fixed_node {
	($size:expr, $scale:expr) => {
		decimal_fixed_node($size, $scale)
	};
}

fn check_decimal_fixed(r: &Result<Vec<u8>, SerError>, val: i128, size: usize) {
	match r {
		Ok(o) => {
			assert!(o.len() == size, "OBL C02.decimal_fixed.exactly_size_bytes");
			assert!(spec_fits_twos_complement(val, size), "OBL C02.decimal_fixed.value_that_does_not_fit_must_be_err");
			assert!(spec_twos_complement(&o[..]) == val, "OBL C02.decimal_fixed.bytes_decode_to_the_value");
		}
		Err(_) => {
			assert!(!spec_fits_twos_complement(val, size), "OBL C01.decimal_fixed.fitting_value_must_serialize");
		}
	}
}

//@ harness: c02_int_to_decimal_fixed
//@   props: C02, C01
//@   tier: quick
//@   kind: complete
//@   fn: ser::serializer::DatumSerializer::serialize_integer (Decimal / DecimalRepr::Fixed arm)
//@   domain: every i64 presented to decimal(fixed(n), scale 0) for n in {0, 1, 2, 8, 16}; every i32 to decimal(fixed(2), scale 1)
//@   post: Ok iff v*10^scale fits n bytes two's complement; then exactly n bytes, sign-extended big-endian, decoding to the value; otherwise Err
#[kani::proof]
#[kani::unwind(19)]
#[kani::stub(alloc::fmt::format, stub_format)]
fn c02_int_to_decimal_fixed() {
	static F0: SchemaNode<'static> = dec_fixed_node!(0, 0);
	static F1: SchemaNode<'static> = dec_fixed_node!(1, 0);
	static F2: SchemaNode<'static> = dec_fixed_node!(2, 0);
	static F8: SchemaNode<'static> = dec_fixed_node!(8, 0);
	static F16: SchemaNode<'static> = dec_fixed_node!(16, 0);
	static F2S1: SchemaNode<'static> = dec_fixed_node!(2, 1);
	let v: i64 = kani::any();
	kani::cover!(v == 300, "COV 300 into one byte");
	let r = ser_with(&F0, |s| s.serialize_i64(v));
	check_decimal_fixed(&r, v as i128, 0);
	std::mem::forget(r);
	let r = ser_with(&F1, |s| s.serialize_i64(v));
	check_decimal_fixed(&r, v as i128, 1);
	std::mem::forget(r);
	let r = ser_with(&F2, |s| s.serialize_i64(v));
	check_decimal_fixed(&r, v as i128, 2);
	std::mem::forget(r);
	let r = ser_with(&F8, |s| s.serialize_i64(v));
	check_decimal_fixed(&r, v as i128, 8);
	std::mem::forget(r);
	let r = ser_with(&F16, |s| s.serialize_i64(v));
	check_decimal_fixed(&r, v as i128, 16);
	std::mem::forget(r);
	let w: i32 = kani::any();
	let r = ser_with(&F2S1, |s| s.serialize_i32(w));
	check_decimal_fixed(&r, w as i128 * 10, 2);
	std::mem::forget(r);
}

//@ harness: c02_int_to_enum
//@   props: C02, C01
//@   tier: quick
//@   kind: complete
//@   fn: ser::serializer::DatumSerializer::serialize_integer (Enum arm)
//@   domain: every i64 and every u32 presented to a static enum node with 2 symbols (empty name table)
//@   post: Ok iff 0 <= v < number of symbols, output == spec long(v); otherwise Err (an index no reader can decode is never written)
#[kani::proof]
#[kani::unwind(12)]
#[kani::stub(alloc::fmt::format, stub_format)]
#[kani::stub(DatumSerializer::serialize_union_unnamed, DatumSerializer::verif_unreachable_union_arm)]
fn c02_int_to_enum() {
	let node = &ENUM2;
	let v: i64 = kani::any();
	let r = ser_with(node, |s| s.serialize_i64(v));
	kani::cover!(v == 1, "COV valid index");
	check_varint_cell(r, if v >= 0 && v < 2 { Some(spec_enc_long(v)) } else { None });
	let u: u32 = kani::any();
	let r = ser_with(node, |s| s.serialize_u32(u));
	check_varint_cell(r, if u < 2 { Some(spec_enc_long(u as i64)) } else { None });
}

// ---- decimal values (rust_decimal::Decimal presentation, i.e. what the str / f64 paths end in)

fn ser_decimal(node: &'static SchemaNode<'static>, d: rust_decimal::Decimal) -> Result<Vec<u8>, SerError> {
	let dec = match node {
		SchemaNode::Decimal(dec) => dec,
		_ => unreachable!(),
	};
	let mut config = ManuallyDrop::new(SerializerConfig::new_with_optional_schema(None));
	let mut state = ManuallyDrop::new(SerializerState::from_writer(Vec::new(), &mut config));
	match decimal::serialize(&mut state, decimal::DecimalMode::Regular(dec), d) {
		Ok(()) => Ok(ManuallyDrop::into_inner(state).into_writer()),
		Err(e) => Err(e),
	}
}
/// any rust_decimal value of the node's scale: sign x 96-bit mantissa (the documented limit), incl. negative zero
fn any_decimal(scale: u32) -> (rust_decimal::Decimal, i128) {
	let lo: u32 = kani::any();
	let mid: u32 = kani::any();
	let hi: u32 = kani::any();
	let neg: bool = kani::any();
	let mag: i128 = (lo as i128) | ((mid as i128) << 32) | ((hi as i128) << 64);
	let mut d = rust_decimal::Decimal::from_parts(lo, mid, hi, neg, scale);
	if neg {
		// from_parts normalises the sign of a zero mantissa away; rust_decimal nevertheless produces
		// NEGATIVE ZERO (sign flag on a zero mantissa: from_f64(-0.0), rescale of a small negative
		// number) - keep that representation in the domain
		d.set_sign_negative(true);
	}
	(d, if neg { -mag } else { mag })
}

//@ harness: c02_decimal_value_to_bytes
//@   props: C02, C01
//@   tier: quick
//@   kind: complete
//@   fn: ser::serializer::decimal::serialize (DecimalMode::Regular over bytes) incl. its nested can_truncate_without_altering_number; rust_decimal::Decimal::{from_parts, rescale (same scale), mantissa} as linked
//@   domain: every sign x every 96-bit mantissa (2^97 values) at the node's scale (2)
//@   post: Ok; output == spec long(L) ++ payload with 1 <= L <= 13, payload = big-endian two's complement whose value is exactly the mantissa, and MINIMAL (no redundant leading 0x00 / 0xFF byte)
#[kani::proof]
#[kani::unwind(19)]
#[kani::stub(alloc::fmt::format, stub_format)]
fn c02_decimal_value_to_bytes() {
	let (d, mantissa) = any_decimal(2);
	let r = ser_decimal(&DEC_BYTES_S2, d);
	kani::cover!(mantissa == 128, "COV 128 needs two bytes");
	kani::cover!(mantissa == -129, "COV -129 needs two bytes");
	match &r {
		Ok(o) => {
			assert!(o.len() >= 2 && o[0] == (2 * (o.len() - 1)) as u8 && o.len() - 1 <= 13, "OBL C02.decimal_value.prefix_is_payload_length");
			let p = &o[1..];
			assert!(spec_twos_complement(p) == mantissa, "OBL C02.decimal_value.payload_decodes_to_the_mantissa");
			assert!(
				p.len() == 1 || !((p[0] == 0x00 && p[1] < 0x80) || (p[0] == 0xFF && p[1] >= 0x80)),
				"OBL C02.decimal_value.payload_is_minimal_twos_complement"
			);
		}
		Err(_) => assert!(false, "OBL C01.decimal_value.every_96_bit_mantissa_must_serialize"),
	}
	std::mem::forget(r);
}

//@ harness: c02_big_decimal_value
//@   props: C02, C01
//@   tier: quick
//@   kind: complete
//@   fn: ser::serializer::decimal::serialize (DecimalMode::Big: the `big-decimal` logical type)
//@   domain: every sign x every 96-bit mantissa x every scale 0..=28
//@   post: Ok; output == spec long(T) ++ [ spec long(L) ++ minimal two's-complement mantissa (L bytes) ++ spec long(scale) ] where T is the length of the bracketed part (the value is a `bytes` whose content is length-prefixed mantissa + scale)
#[kani::proof]
#[kani::unwind(19)]
#[kani::stub(alloc::fmt::format, stub_format)]
fn c02_big_decimal_value() {
	let scale: u32 = kani::any();
	kani::assume(scale <= 28);
	let (d, mantissa) = any_decimal(scale);
	let mut config = ManuallyDrop::new(SerializerConfig::new_with_optional_schema(None));
	let mut state = ManuallyDrop::new(SerializerState::from_writer(Vec::new(), &mut config));
	let r = decimal::serialize(&mut state, decimal::DecimalMode::Big, d);
	assert!(r.is_ok(), "OBL C01.big_decimal.every_value_must_serialize");
	let o = &state.writer;
	// all three varints are one byte here: T <= 1 + 13 + 1, L <= 13, scale <= 28
	assert!(o.len() >= 4 && o[0] == (2 * (o.len() - 1)) as u8, "OBL C02.big_decimal.outer_length_prefix_covers_the_rest");
	let l = (o[1] / 2) as usize;
	assert!(o[1] % 2 == 0 && l >= 1 && o.len() == 1 + 1 + l + 1, "OBL C02.big_decimal.inner_length_prefix_then_mantissa_then_scale");
	let p = &o[2..2 + l];
	assert!(spec_twos_complement(p) == mantissa, "OBL C02.big_decimal.mantissa_is_twos_complement_big_endian");
	assert!(l == 1 || !((p[0] == 0x00 && p[1] < 0x80) || (p[0] == 0xFF && p[1] >= 0x80)), "OBL C02.big_decimal.mantissa_is_minimal");
	assert!(o[2 + l] == (2 * scale) as u8, "OBL C02.big_decimal.scale_follows_as_spec_long");
	std::mem::forget(r);
}

macro_rules! decimal_value_to_fixed {
	($name:ident, $size:expr) => {
		#[kani::proof]
		#[kani::unwind(21)]
		#[kani::stub(alloc::fmt::format, stub_format)]
		fn $name() {
			static NODE: SchemaNode<'static> = decimal_fixed_node($size, 0);
			let (d, mantissa) = any_decimal(0);
			let r = ser_decimal(&NODE, d);
			if $size <= 16 {
				check_decimal_fixed(&r, mantissa, $size);
			} else {
				match &r {
					Ok(o) => {
						let pad: u8 = if mantissa < 0 { 0xFF } else { 0x00 };
						let extra = $size - 16;
						let mut all_pad = true;
						let mut i = 0;
						while i < extra {
							if o[i] != pad {
								all_pad = false;
							}
							i += 1;
						}
						assert!(o.len() == $size && all_pad && spec_twos_complement(&o[extra..]) == mantissa,
							"OBL C02.decimal_value.fixed_larger_than_16_is_sign_padded");
					}
					Err(_) => assert!(false, "OBL C01.decimal_value.fixed_larger_than_16_always_fits"),
				}
			}
			std::mem::forget(r);
		}
	};
}

//@ harness: c02_decimal_value_to_fixed_1
//@   props: C02, C01
//@   tier: quick
//@   kind: complete
//@   fn: ser::serializer::decimal::serialize (DecimalMode::Regular over fixed(1)) incl. can_truncate_without_altering_number
//@   domain: every sign x every 96-bit mantissa at scale 0
//@   post: Ok iff -128 <= mantissa <= 127, then that single byte; otherwise Err (never truncated)
decimal_value_to_fixed!(c02_decimal_value_to_fixed_1, 1);

//@ harness: c02_decimal_value_to_fixed_2
//@   props: C02, C01
//@   tier: quick
//@   kind: complete
//@   fn: ser::serializer::decimal::serialize (fixed(2))
//@   domain: every sign x every 96-bit mantissa at scale 0
//@   post: Ok iff the mantissa fits 2 bytes two's complement; then exactly those 2 bytes; otherwise Err
decimal_value_to_fixed!(c02_decimal_value_to_fixed_2, 2);

//@ harness: c02_decimal_value_to_fixed_0
//@   props: C02, C01
//@   tier: quick
//@   kind: complete
//@   fn: ser::serializer::decimal::serialize (fixed(0))
//@   domain: every sign x every 96-bit mantissa at scale 0
//@   post: Ok iff the number is zero (empty output); otherwise Err
decimal_value_to_fixed!(c02_decimal_value_to_fixed_0, 0);

//@ harness: c02_decimal_value_to_fixed_16
//@   props: C02, C01
//@   tier: quick
//@   kind: complete
//@   fn: ser::serializer::decimal::serialize (fixed(16))
//@   domain: every sign x every 96-bit mantissa at scale 0
//@   post: always Ok; 16 bytes sign-extended big-endian decoding to the mantissa
decimal_value_to_fixed!(c02_decimal_value_to_fixed_16, 16);

//@ harness: c02_decimal_value_to_fixed_18
//@   props: C02, C01
//@   tier: quick
//@   kind: complete
//@   fn: ser::serializer::decimal::serialize (fixed(18): larger than the 16-byte mantissa buffer)
//@   domain: every sign x every 96-bit mantissa at scale 0
//@   post: always Ok; two sign-padding bytes followed by the 16-byte two's complement
decimal_value_to_fixed!(c02_decimal_value_to_fixed_18, 18);

//@ harness: c02_ser_cells_canary
//@   props: C02, C01
//@   tier: quick
//@   kind: canary
#[kani::proof]
#[kani::unwind(12)]
#[kani::stub(alloc::fmt::format, stub_format)]
fn c02_ser_cells_canary() {
	static NODE: SchemaNode<'static> = SchemaNode::Long;
	let v: i64 = kani::any();
	let r = ser_with(&NODE, |s| s.serialize_i64(v));
	assert!(r.is_err(), "OBL canary");
	std::mem::forget(r);
}
