// Verus unit (lemma only, no extracted code): the induction over call histories that DESIGN.md's C15
// argument relies on, machine-checked over the ONE-STEP contracts of the container Writer (Kani, unit
// container_writer: c15_serialize_ok_step, c15_serialize_failing_value_step, c15_push_serialized_step,
// c15_finish_block_step, c15_into_inner_step, c15_drop_step - each proved from an arbitrary quiescent
// well-formed writer state).
//
// Ghost view of a writer (what the step contracts speak about): the blocks that reached the sink, each
// a list of values; the values of the open block.  The step contracts, abstracted to values (that a
// block's bytes are [long(count), long(len), data, sync] is the Kani obligation; compression is C05):
//   serialize ok v      : possibly flush the open block first, append v to the open block and count it
//                         once, possibly flush afterwards; a flush moves the WHOLE open block to the sink
//   serialize failing   : nothing changes
//   finish_block        : the open block, if non-empty, moves to the sink; open block empty afterwards
//   into_inner / drop   : as finish_block (exactly once)
// push_serialized(n values) is `serialize ok` for n values at once.
use vstd::prelude::*;
verus! {

pub struct W {
    pub sink: Seq<Seq<int>>,  // complete blocks delivered to the sink, in order
    pub open: Seq<int>,       // values of the open (not yet flushed) block
}

pub enum Op {
    SerOk { v: int, flush_before: bool, flush_after: bool },
    SerFail,
    Push { vs: Seq<int>, flush_after: bool },
    FinishBlock,
}

pub open spec fn flush(w: W) -> W {
    if w.open.len() == 0 { w } else { W { sink: w.sink.push(w.open), open: Seq::empty() } }
}

/// the step contracts (see header); the flush decisions are the symbolic `approx_block_size` test
pub open spec fn step(w: W, op: Op) -> W {
    match op {
        Op::SerOk { v, flush_before, flush_after } => {
            let w1 = if flush_before { flush(w) } else { w };
            let w2 = W { sink: w1.sink, open: w1.open.push(v) };
            if flush_after { flush(w2) } else { w2 }
        },
        Op::SerFail => w,
        Op::Push { vs, flush_after } => {
            let w2 = W { sink: w.sink, open: w.open + vs };
            if flush_after { flush(w2) } else { w2 }
        },
        Op::FinishBlock => flush(w),
    }
}

pub open spec fn flatten(blocks: Seq<Seq<int>>) -> Seq<int>
    decreases blocks.len(),
{
    if blocks.len() == 0 { Seq::empty() } else { flatten(blocks.drop_last()) + blocks.last() }
}

/// the values an operation contributes when it succeeds
pub open spec fn contributed(op: Op) -> Seq<int> {
    match op {
        Op::SerOk { v, .. } => seq![v],
        Op::SerFail => Seq::empty(),
        Op::Push { vs, .. } => vs,
        Op::FinishBlock => Seq::empty(),
    }
}

pub open spec fn run(w: W, ops: Seq<Op>) -> W
    decreases ops.len(),
{
    if ops.len() == 0 { w } else { step(run(w, ops.drop_last()), ops.last()) }
}

pub open spec fn all_contributed(ops: Seq<Op>) -> Seq<int>
    decreases ops.len(),
{
    if ops.len() == 0 { Seq::empty() } else { all_contributed(ops.drop_last()) + contributed(ops.last()) }
}

/// what the file holds plus what is still open == everything serialized successfully, in order, once
pub open spec fn contents(w: W) -> Seq<int> {
    flatten(w.sink) + w.open
}

proof fn lemma_flush_keeps_contents(w: W)
    ensures contents(flush(w)) =~= contents(w), flush(w).open.len() == 0 || w.open.len() == 0,
        forall|i: int| 0 <= i < flush(w).sink.len() && i >= w.sink.len() ==> (#[trigger] flush(w).sink[i]).len() > 0,
{
    if w.open.len() > 0 {
        let s2 = w.sink.push(w.open);
        assert(s2.drop_last() =~= w.sink);
        assert(s2.last() == w.open);
        assert(flatten(s2) =~= flatten(w.sink) + w.open);
    }
}

proof fn lemma_step_contents(w: W, op: Op)
    ensures
        contents(step(w, op)) =~= contents(w) + contributed(op),
        // the sink only ever grows, by whole blocks, and its earlier blocks are untouched (a valid prefix stays valid)
        step(w, op).sink.len() >= w.sink.len(),
        forall|i: int| 0 <= i < w.sink.len() ==> step(w, op).sink[i] == w.sink[i],
{
    match op {
        Op::SerOk { v, flush_before, flush_after } => {
            let w1 = if flush_before { flush(w) } else { w };
            lemma_flush_keeps_contents(w);
            let w2 = W { sink: w1.sink, open: w1.open.push(v) };
            assert(contents(w2) =~= contents(w1) + seq![v]);
            lemma_flush_keeps_contents(w2);
        },
        Op::SerFail => {
            assert(contents(w) + Seq::<int>::empty() =~= contents(w));
        },
        Op::Push { vs, flush_after } => {
            let w2 = W { sink: w.sink, open: w.open + vs };
            assert(contents(w2) =~= contents(w) + vs);
            lemma_flush_keeps_contents(w2);
        },
        Op::FinishBlock => {
            lemma_flush_keeps_contents(w);
            assert(contents(w) + Seq::<int>::empty() =~= contents(w));
        },
    }
}

/// MAIN LEMMA (C15, any call history): after ANY sequence of writer operations from a fresh writer, the
/// blocks in the sink followed by the open block are exactly the successfully serialized values, in
/// order, each once - in particular the file (the sink) always holds a PREFIX of them, and a failed
/// value contributes nothing.
pub proof fn lemma_history(ops: Seq<Op>)
    ensures contents(run(W { sink: Seq::empty(), open: Seq::empty() }, ops)) =~= all_contributed(ops),
    decreases ops.len(),
{
    let w0 = W { sink: Seq::empty(), open: Seq::empty() };
    if ops.len() == 0 {
        assert(flatten(w0.sink) =~= Seq::<int>::empty());
    } else {
        lemma_history(ops.drop_last());
        lemma_step_contents(run(w0, ops.drop_last()), ops.last());
    }
}

/// after an explicit flush / into_inner / drop (all `FinishBlock` in this view) the FILE holds all of them
pub proof fn lemma_after_flush_file_is_complete(ops: Seq<Op>)
    requires ops.len() > 0, ops.last() == Op::FinishBlock,
    ensures
        flatten(run(W { sink: Seq::empty(), open: Seq::empty() }, ops).sink) =~= all_contributed(ops),
        run(W { sink: Seq::empty(), open: Seq::empty() }, ops).open.len() == 0,
{
    let w0 = W { sink: Seq::empty(), open: Seq::empty() };
    lemma_history(ops);
    let w = run(w0, ops.drop_last());
    lemma_flush_keeps_contents(w);
    let wf = run(w0, ops);
    assert(wf == flush(w));
    assert(wf.open.len() == 0);
    assert(contents(wf) =~= flatten(wf.sink));
}

} // verus!
