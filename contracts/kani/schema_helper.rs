//@ unit: schema_helper
//@ inject-into: serde_avro_fast/src/schema/self_referential.rs
//@ crate-attr: feature(const_heap)
//@ requires-unit: lookup_helper
//@ anchor: serde_avro_fast/src/schema/self_referential.rs :: pub struct Schema \{
//@ anchor: serde_avro_fast/src/schema/self_referential.rs :: pub\(crate\) fn root<'a>\(&'a self\) -> NodeRef<'a>

/// Test-harness constructor: a frozen `Schema` whose node storage is a `static` array, with the
/// fingerprint given directly (the fields are private to this file).
///
/// It does NOT go through parsing / freeze (serde_json + HashMap are out of CBMC's reach,
/// DESIGN §1).  The node vector is a `Vec` header aliasing the static array and the whole value
/// is `ManuallyDrop`: it is never dropped, grown or written, so no allocator call ever sees the
/// static pointer.  Measured: with heap-built nodes CBMC cannot constant-fold the node kind and
/// every arm of the (de)serializer's `match *schema_node` plus the HashMap drop glue stays
/// reachable (> 900 s); with static nodes the same harness takes seconds.
pub(crate) fn mk_schema_static(
	nodes: &'static [SchemaNode<'static>],
	fingerprint: [u8; 8],
) -> std::mem::ManuallyDrop<Schema> {
	// SAFETY (harness only): len == capacity == nodes.len(), never reallocated or dropped.
	let v = unsafe {
		Vec::from_raw_parts(nodes.as_ptr() as *mut SchemaNode<'static>, nodes.len(), nodes.len())
	};
	std::mem::ManuallyDrop::new(Schema { nodes: v, fingerprint, schema_json: String::new() })
}

pub(crate) static NODES_LONG: [SchemaNode<'static>; 1] = [SchemaNode::Long];

/// const constructors for nodes whose components have fields private to `crate::schema`
pub(crate) const fn anon_name() -> Name {
	Name { fully_qualified_name: String::new(), namespace_delimiter_idx: None }
}
pub(crate) const fn fixed_node(size: usize) -> SchemaNode<'static> {
	SchemaNode::Fixed(Fixed { size, name: anon_name() })
}
pub(crate) const fn decimal_bytes_node(scale: u32) -> SchemaNode<'static> {
	SchemaNode::Decimal(Decimal { _precision: 38, scale, repr: DecimalRepr::Bytes })
}
pub(crate) const fn decimal_fixed_node(size: usize, scale: u32) -> SchemaNode<'static> {
	SchemaNode::Decimal(Decimal {
		_precision: 38,
		scale,
		repr: DecimalRepr::Fixed(Fixed { size, name: anon_name() }),
	})
}

/// Fixed hasher keys instead of the thread-local/OS-seeded ones (getrandom is a foreign call).
/// Only ever used to *construct* empty maps in harnesses: nothing is hashed (A2).
pub(crate) fn stub_random_state_new() -> std::hash::RandomState {
	// SAFETY (harness only): RandomState is two u64 keys.
	unsafe { std::mem::transmute::<(u64, u64), std::hash::RandomState>((0, 0)) }
}

// ---- fully static composite nodes (need `#![cfg_attr(kani, feature(const_heap))]`, prepended to
// lib.rs by the engine).  A Vec/String header aliases a static array and is never dropped or grown
// (statics are not dropped); maps are EMPTY and never hashed (A2).  Measured: a run-time built
// (Box or static-mut slot) composite node makes the node kind non-constant for CBMC, every arm of
// serialize_integer incl. the recursive union arm stays reachable, and no harness finishes.
pub(crate) const fn const_vec<T>(s: &'static [T]) -> Vec<T> {
	unsafe { Vec::from_raw_parts(s.as_ptr() as *mut T, s.len(), s.len()) }
}
pub(crate) const fn const_string(b: &'static [u8]) -> String {
	// harness only: String is a newtype over Vec<u8>
	unsafe { std::mem::transmute::<Vec<u8>, String>(const_vec(b)) }
}
pub(crate) const fn empty_map<K, V>() -> HashMap<K, V> {
	HashMap::with_hasher(unsafe { std::mem::transmute::<(u64, u64), std::hash::RandomState>((0, 0)) })
}
pub(crate) const fn enum_node(symbols: &'static [String]) -> SchemaNode<'static> {
	SchemaNode::Enum(Enum { symbols: const_vec(symbols), name: anon_name(), per_name_lookup: empty_map() })
}
pub(crate) static TWO_SYMBOLS: [String; 2] = [const_string(b"a"), const_string(b"b")];
pub(crate) static ENUM2: SchemaNode<'static> = enum_node(&TWO_SYMBOLS);

// ---- static union nodes (type-directed table given explicitly, see lookup_helper)
use crate::schema::union_variants_per_type_lookup::{
	__verif_lookup_helper::{const_lookup, key_index, N_KEYS},
	UnionVariantLookupKey,
};
pub(crate) static N_NULL: SchemaNode<'static> = SchemaNode::Null;
pub(crate) static N_LONG: SchemaNode<'static> = SchemaNode::Long;
pub(crate) static N_DOUBLE: SchemaNode<'static> = SchemaNode::Double;
pub(crate) static N_STRING: SchemaNode<'static> = SchemaNode::String;
pub(crate) static N_BOOLEAN: SchemaNode<'static> = SchemaNode::Boolean;
pub(crate) static N_INT: SchemaNode<'static> = SchemaNode::Int;

const fn table_null_long(null_idx: i64, long_idx: i64) -> [Option<(i64, NodeRef<'static>)>; N_KEYS] {
	// what PerTypeLookup::new registers for Null and Long (priorities resolved by hand; assumed, A2)
	let mut t: [Option<(i64, NodeRef<'static>)>; N_KEYS] = [None; N_KEYS];
	t[key_index(UnionVariantLookupKey::Null)] = Some((null_idx, NodeRef::from_static(&N_NULL)));
	t[key_index(UnionVariantLookupKey::UnitStruct)] = Some((null_idx, NodeRef::from_static(&N_NULL)));
	t[key_index(UnionVariantLookupKey::UnitVariant)] = Some((null_idx, NodeRef::from_static(&N_NULL)));
	t[key_index(UnionVariantLookupKey::Integer)] = Some((long_idx, NodeRef::from_static(&N_LONG)));
	t[key_index(UnionVariantLookupKey::Integer4)] = Some((long_idx, NodeRef::from_static(&N_LONG)));
	t[key_index(UnionVariantLookupKey::Integer8)] = Some((long_idx, NodeRef::from_static(&N_LONG)));
	t
}
static VARIANTS_NULL_LONG: [NodeRef<'static>; 2] = [NodeRef::from_static(&N_NULL), NodeRef::from_static(&N_LONG)];
static VARIANTS_LONG_NULL: [NodeRef<'static>; 2] = [NodeRef::from_static(&N_LONG), NodeRef::from_static(&N_NULL)];
static VARIANTS_NULL_LONG_DOUBLE: [NodeRef<'static>; 3] =
	[NodeRef::from_static(&N_NULL), NodeRef::from_static(&N_LONG), NodeRef::from_static(&N_DOUBLE)];
/// ["null", "long"]
pub(crate) static UNION_NULL_LONG: SchemaNode<'static> = SchemaNode::Union(Union {
	variants: const_vec(&VARIANTS_NULL_LONG),
	per_type_lookup: const_lookup(table_null_long(0, 1)),
});
/// ["long", "null"]
pub(crate) static UNION_LONG_NULL: SchemaNode<'static> = SchemaNode::Union(Union {
	variants: const_vec(&VARIANTS_LONG_NULL),
	per_type_lookup: const_lookup(table_null_long(1, 0)),
});
/// ["null", "long", "double"] (decode-side harnesses only: lookup table left empty)
pub(crate) static UNION_NULL_LONG_DOUBLE: SchemaNode<'static> = SchemaNode::Union(Union {
	variants: const_vec(&VARIANTS_NULL_LONG_DOUBLE),
	per_type_lookup: const_lookup([None; N_KEYS]),
});

// ---- static record node:  record R { a: long, b: ["long","null"], c: long }   (empty name table)
static FIELDS_ABC: [RecordField<'static>; 3] = [
	RecordField { name: const_string(b"a"), schema: NodeRef::from_static(&N_LONG) },
	// null is deliberately NOT the first branch: an omitted field must get the null branch's real index
	RecordField { name: const_string(b"b"), schema: NodeRef::from_static(&UNION_LONG_NULL) },
	RecordField { name: const_string(b"c"), schema: NodeRef::from_static(&N_LONG) },
];
pub(crate) static RECORD_ABC: SchemaNode<'static> = SchemaNode::Record(Record {
	fields: const_vec(&FIELDS_ABC),
	name: anon_name(),
	per_name_lookup: empty_map(),
});
pub(crate) fn record_of(node: &'static SchemaNode<'static>) -> &'static Record<'static> {
	match node {
		SchemaNode::Record(r) => r,
		_ => unreachable!(),
	}
}


pub(crate) static NODES_ARRAY_LONG: [SchemaNode<'static>; 2] =
	[SchemaNode::Array(NodeRef::from_static(&N_LONG)), SchemaNode::Long];
pub(crate) static NODES_DURATION: [SchemaNode<'static>; 1] = [SchemaNode::Duration];

// ---- record R2 { a: long, b: null, c: long }  (b is an always-null field: omittable)
static FIELDS_ANC: [RecordField<'static>; 3] = [
	RecordField { name: const_string(b"a"), schema: NodeRef::from_static(&N_LONG) },
	RecordField { name: const_string(b"b"), schema: NodeRef::from_static(&N_NULL) },
	RecordField { name: const_string(b"c"), schema: NodeRef::from_static(&N_LONG) },
];
pub(crate) static RECORD_ANC: SchemaNode<'static> = SchemaNode::Record(Record {
	fields: const_vec(&FIELDS_ANC),
	name: anon_name(),
	per_name_lookup: empty_map(),
});

// ---- record R { a: long, b: ["long","null"] }  (omittable union field LAST: end() without any buffer)
static FIELDS_AB: [RecordField<'static>; 2] = [
	RecordField { name: const_string(b"a"), schema: NodeRef::from_static(&N_LONG) },
	RecordField { name: const_string(b"b"), schema: NodeRef::from_static(&UNION_LONG_NULL) },
];
pub(crate) static RECORD_AB: SchemaNode<'static> = SchemaNode::Record(Record {
	fields: const_vec(&FIELDS_AB),
	name: anon_name(),
	per_name_lookup: empty_map(),
});

pub(crate) static ARRAY_OF_LONG: SchemaNode<'static> = SchemaNode::Array(NodeRef::from_static(&N_LONG));

// ---- record R3 { a: long, b: long, c: long }
static FIELDS_LLL: [RecordField<'static>; 3] = [
	RecordField { name: const_string(b"a"), schema: NodeRef::from_static(&N_LONG) },
	RecordField { name: const_string(b"b"), schema: NodeRef::from_static(&N_LONG) },
	RecordField { name: const_string(b"c"), schema: NodeRef::from_static(&N_LONG) },
];
pub(crate) static RECORD_LLL: SchemaNode<'static> = SchemaNode::Record(Record {
	fields: const_vec(&FIELDS_LLL),
	name: anon_name(),
	per_name_lookup: empty_map(),
});
