//@ unit: depth
//@ inject-into: serde_avro_fast/src/de/deserializer/allowed_depth.rs
//@ anchor: serde_avro_fast/src/de/deserializer/allowed_depth.rs :: pub\(crate\) fn dec\(self\) -> Result<Self, DeError>
//@ include: common

impl AllowedDepth {
	/// harness-only accessor of the private budget
	pub(crate) fn budget(&self) -> usize {
		self.allowed_additional_depth
	}
}

//@ harness: c04_allowed_depth_dec
//@   props: C04
//@   tier: quick
//@   kind: complete
//@   fn: de::deserializer::allowed_depth::AllowedDepth::dec
//@   domain: every usize budget
//@   post: budget 0 => Err; otherwise Ok with budget - 1 (strictly smaller): the well-founded measure of every descent
#[kani::proof]
#[kani::stub(alloc::fmt::format, stub_format)]
fn c04_allowed_depth_dec() {
	let d: usize = kani::any();
	let r = AllowedDepth::new(d).dec();
	match &r {
		Ok(n) => assert!(d > 0 && n.allowed_additional_depth == d - 1, "OBL C04.depth.dec_strictly_decreases"),
		Err(_) => assert!(d == 0, "OBL C04.depth.err_only_at_zero"),
	}
	std::mem::forget(r);
}

