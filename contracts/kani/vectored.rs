//@ unit: vectored
//@ inject-into: serde_avro_fast/src/object_container_file_encoding/writer/vectored_write_polyfill.rs
//@ anchor: serde_avro_fast/src/object_container_file_encoding/writer/vectored_write_polyfill.rs :: pub\(super\) fn write_all_vectored<
//@ include: common

// named explicitly (not only through `use super::*`): the file under contract may stop importing some of them
use std::io::{Error, ErrorKind, IoSlice, Result, Write};

/// Sink double: every `write_vectored` call nondeterministically (a) accepts any k in 0..=total
/// bytes offered (in order, across slice boundaries), (b) reports Interrupted (at most
/// `interrupts_left` times), or (c) reports a hard error (if `may_fail`).
///
/// The three source slices carry *position-coded* bytes (10+i, 20+i, 30+i), so instead of storing
/// what it receives (array writes under symbolic indices blow the SAT instance up to 25M clauses)
/// the sink checks, at every call, that what it is OFFERED is a prefix of the not-yet-accepted suffix
/// of the stream s0++s1++s2 - which (with `accepted == total` on Ok) is equivalent to "nothing lost, duplicated or reordered".
struct SchedSink {
	l: [usize; 3],
	accepted: usize,
	interrupts_left: u8,
	may_fail: bool,
	saw_zero: bool,
	saw_hard_error: bool,
	calls: u8,
}
impl SchedSink {
	fn total(&self) -> usize {
		self.l[0] + self.l[1] + self.l[2]
	}
	fn expected_at(&self, p: usize) -> u8 {
		if p < self.l[0] {
			10 + p as u8
		} else if p < self.l[0] + self.l[1] {
			20 + (p - self.l[0]) as u8
		} else {
			30 + (p - self.l[0] - self.l[1]) as u8
		}
	}
}
impl Write for SchedSink {
	fn write(&mut self, buf: &[u8]) -> Result<usize> {
		self.write_vectored(&[IoSlice::new(buf)])
	}
	fn write_vectored(&mut self, bufs: &[IoSlice<'_>]) -> Result<usize> {
		self.calls += 1;
		// What is offered must be the not-yet-accepted suffix of the stream.  Every offered buffer is
		// a contiguous sub-range of DATA, DATA is consecutive inside a slice and jumps by >= 8 between
		// slices, so checking the first and the last byte of each buffer against the position code
		// (plus the total length below) pins down every byte without a nested per-byte loop.
		let mut offered = 0usize;
		let mut i = 0;
		while i < bufs.len() {
			let n = bufs[i].len();
			if n > 0 {
				assert!(bufs[i][0] == self.expected_at(self.accepted + offered), "OBL C16.vectored.offered_bytes_are_the_unsent_suffix_in_order");
				assert!(bufs[i][n - 1] == self.expected_at(self.accepted + offered + n - 1), "OBL C16.vectored.offered_bytes_are_the_unsent_suffix_in_order");
			}
			offered += n;
			i += 1;
		}
		// The property does not say HOW MUCH of the unsent suffix each call offers (std's loop offers all of
		// it; a slice-by-slice implementation would be just as correct): only that it is a prefix of it.
		assert!(offered <= self.total() - self.accepted, "OBL C16.vectored.never_offers_more_than_remains");
		if offered == 0 {
			return Ok(0); // nothing offered, nothing accepted: not a zero-length ACCEPTANCE of data
		}
		let choice: u8 = kani::any();
		if choice == 1 && self.interrupts_left > 0 {
			self.interrupts_left -= 1;
			return Err(Error::from(ErrorKind::Interrupted));
		}
		if choice == 2 && self.may_fail {
			self.saw_hard_error = true;
			// any kind other than Interrupted is a hard error for the caller (EAGAIN/WouldBlock included:
			// retrying it would swallow the error or spin)
			let kinds = [
				ErrorKind::StorageFull,
				ErrorKind::WouldBlock,
				ErrorKind::TimedOut,
				ErrorKind::BrokenPipe,
				ErrorKind::Other,
				ErrorKind::UnexpectedEof,
				ErrorKind::PermissionDenied,
				ErrorKind::ConnectionReset,
			];
			let which: usize = kani::any();
			kani::assume(which < 8);
			return Err(Error::from(kinds[which]));
		}
		let k: usize = kani::any();
		kani::assume(k <= offered);
		if k == 0 {
			self.saw_zero = true;
		}
		self.accepted += k;
		Ok(k)
	}
	fn flush(&mut self) -> Result<()> {
		Ok(())
	}
}

static DATA: [u8; 9] = [10, 11, 12, 20, 21, 22, 30, 31, 32];

fn run_schedule(l0: usize, l1: usize, l2: usize, interrupts: u8, may_fail: bool) -> (bool, u8, u8) {
	kani::assume(l0 <= 3 && l1 <= 3 && l2 <= 3);
	let s0 = &DATA[0..l0];
	let s1 = &DATA[3..3 + l1];
	let s2 = &DATA[6..6 + l2];
	let mut sink = SchedSink {
		l: [l0, l1, l2],
		accepted: 0,
		interrupts_left: interrupts,
		may_fail,
		saw_zero: false,
		saw_hard_error: false,
		calls: 0,
	};
	let r = write_all_vectored(&mut sink, [s0, s1, s2]);
	let total = l0 + l1 + l2;
	match &r {
		Ok(()) => {
			assert!(!sink.saw_hard_error, "OBL C16.vectored.hard_error_must_surface");
			assert!(!sink.saw_zero, "OBL C16.vectored.zero_length_write_must_surface_as_error");
			assert!(sink.accepted == total, "OBL C16.vectored.everything_delivered_exactly_once");
		}
		Err(e) => {
			assert!(sink.saw_zero || sink.saw_hard_error, "OBL C16.vectored.err_only_when_sink_failed_or_accepted_nothing");
			if sink.saw_zero && !sink.saw_hard_error {
				assert!(e.kind() == ErrorKind::WriteZero, "OBL C16.vectored.zero_accept_is_write_zero");
			}
			assert!(sink.accepted <= total, "OBL C16.vectored.never_more_than_offered");
		}
	}
	let out = (r.is_ok(), sink.calls, sink.interrupts_left);
	std::mem::forget(r);
	std::mem::forget(sink);
	out
}

//@ harness: c16_vectored_partial_writes
//@   props: C16
//@   tier: quick
//@   kind: bounded(three slices of length 0..=2 each, position-coded content; every acceptance schedule; no interruption)
//@   fn: object_container_file_encoding::writer::vectored_write_polyfill::{write_all_vectored, write_all_vectored_inner} + std IoSlice::advance_slices
//@   domain: every (l0,l1,l2) in 0..=2, every sequence of per-call accepted byte counts k in 0..=remaining (partial inside a slice, exactly at a boundary, across boundaries, empty slices)
//@   post: Ok => sink stream == s0++s1++s2 (nothing lost/duplicated/reordered) and the sink never accepted 0; accepting 0 bytes with data left => Err(WriteZero)
#[kani::proof]
#[kani::unwind(9)]
fn c16_vectored_partial_writes() {
	let l0: usize = kani::any();
	let l1: usize = kani::any();
	let l2: usize = kani::any();
	kani::assume(l0 <= 2 && l1 <= 2 && l2 <= 2);
	let (ok, calls, _) = run_schedule(l0, l1, l2, 0, false);
	kani::cover!(ok && calls >= 4, "COV several partial writes");
}

//@ harness: c16_vectored_interrupts_and_errors
//@   props: C16
//@   tier: quick
//@   kind: bounded(three slices of length 0..=1, <= 2 Interrupted results, hard error of any of 8 non-Interrupted kinds (incl. WouldBlock, TimedOut) allowed at any call)
//@   fn: object_container_file_encoding::writer::vectored_write_polyfill::write_all_vectored_inner
//@   domain: every schedule mixing partial writes, up to 2 interruptions and a hard error at any call index
//@   post: Interrupted is retried without losing/duplicating data; a hard error is returned to the caller; on Err the sink holds a prefix
#[kani::proof]
#[kani::unwind(8)]
fn c16_vectored_interrupts_and_errors() {
	let l0: usize = kani::any();
	let l1: usize = kani::any();
	let l2: usize = kani::any();
	kani::assume(l0 <= 1 && l1 <= 1 && l2 <= 1);
	let (ok, _, left) = run_schedule(l0, l1, l2, 2, true);
	kani::cover!(ok && left == 0, "COV interrupted twice and still delivered");
}

//@ harness: c16_vectored_thorough
//@   props: C16
//@   tier: thorough
//@   kind: bounded(three slices of length 0..=2, <= 1 Interrupted result, hard error of any of 8 non-Interrupted kinds (incl. WouldBlock, TimedOut) allowed at any call)
//@   fn: object_container_file_encoding::writer::vectored_write_polyfill::write_all_vectored_inner
//@   domain: every (l0,l1,l2) in 0..=2, every schedule of acceptances / one interruption / hard error
//@   post: as c16_vectored_interrupts_and_errors (the 0..=3 / 2-interruption version exhausts 12 GB and was reduced under the fallback rule)
#[kani::proof]
#[kani::unwind(10)]
fn c16_vectored_thorough() {
	let l0: usize = kani::any();
	let l1: usize = kani::any();
	let l2: usize = kani::any();
	kani::assume(l0 <= 2 && l1 <= 2 && l2 <= 2);
	let _ = run_schedule(l0, l1, l2, 1, true);
}

//@ harness: c16_vectored_canary
//@   props: C16
//@   tier: quick
//@   kind: canary
#[kani::proof]
#[kani::unwind(8)]
fn c16_vectored_canary() {
	let mut sink = SchedSink { l: [1, 1, 0], accepted: 0, interrupts_left: 0, may_fail: false, saw_zero: false, saw_hard_error: false, calls: 0 };
	let r = write_all_vectored(&mut sink, [&DATA[0..1], &DATA[3..4], &DATA[6..6]]);
	assert!(r.is_err(), "OBL canary");
	std::mem::forget(r);
	std::mem::forget(sink);
}
