// NOT LOADED: removed from unit de_cells under the fallback rule (does not finish in 600 s: even with
// rust_decimal::Decimal::try_from_i128_with_scale stubbed, rust_decimal's to_str / Serialize code
// after it stays reachable for CBMC).  Listed under not_decided for C12 / C03.

/// rust_decimal is a trusted dependency (A3) that CBMC cannot get through; for the skip contract
/// only the number of bytes consumed BEFORE it is entered matters, so its entry point is replaced
/// by "rejects" (one of its documented outcomes).
fn stub_try_from_i128_with_scale(_num: i128, scale: u32) -> Result<rust_decimal::Decimal, rust_decimal::Error> {
	Err(rust_decimal::Error::ScaleExceedsMaximumPrecision(scale))
}

//@ harness: c12_skip_decimal_nodes
//@   props: C12, C04
//@   tier: quick
//@   kind: complete
//@   fn: de::deserializer::DatumDeserializer::deserialize_ignored_any -> read_decimal (nodes decimal over fixed(8), decimal over bytes); rust_decimal::Decimal::try_from_i128_with_scale stubbed to Err (A3)
//@   domain: every input of length 0..=10
//@   post: ignoring a fixed-backed decimal consumes exactly the fixed size (no length prefix is read); ignoring a bytes-backed decimal consumes exactly prefix + length; shorter input => Err; sizes > 16 => Err without reading
#[kani::proof]
#[kani::unwind(19)]
#[kani::stub(alloc::fmt::format, stub_format)]
#[kani::stub(rust_decimal::Decimal::try_from_i128_with_scale, stub_try_from_i128_with_scale)]
fn c12_skip_decimal_nodes() {
	static DF: SchemaNode<'static> = decimal_fixed_node(8, 2);
	static DB: SchemaNode<'static> = decimal_bytes_node(2);
	let buf: [u8; 10] = kani::any();
	let len: usize = kani::any();
	kani::assume(len <= 10);
	let input = &buf[..len];
	let mut st = state_over(&DF, input);
	let r = st.deserializer().deserialize_ignored_any(IgnoredAny);
	let consumed = len - remaining(&mut st.reader);
	if len >= 8 {
		assert!(consumed == 8, "OBL C12.skip.fixed_decimal_consumes_exactly_its_fixed_size");
	} else {
		assert!(r.is_err(), "OBL C03.decimal.premature_end_is_err");
	}
	std::mem::forget(r);
	let mut st = state_over(&DB, input);
	let r = st.deserializer().deserialize_ignored_any(IgnoredAny);
	let consumed = len - remaining(&mut st.reader);
	match spec_dec_long(input) {
		Some((l, n)) if l >= 0 && l <= 16 && (l as usize) <= len - n => {
			kani::cover!(l == 3, "COV three-byte bytes decimal");
			assert!(consumed == n + l as usize, "OBL C12.skip.bytes_decimal_consumes_prefix_plus_length");
		}
		_ => assert!(r.is_err(), "OBL C03.decimal.bad_or_oversized_length_is_err"),
	}
	std::mem::forget(r);
}

