"""Per-property static configuration: level, assumptions, explanation, Verus units.
Harness membership comes from the `//@ harness:` annotations in contracts/kani/*.rs."""

A1 = "A1 core/alloc/std as compiled by Kani's toolchain (nightly-2026-08-21) and Kani's models of them are executed symbolically, not re-proved (Vec, String, io::Read/Write/BufRead default methods, from_utf8, to/from_le/be_bytes)"
A2 = "A2 std::collections::HashMap insert/get behave as a finite map; not executable under CBMC, contracts are stated over the looked-up index; PerTypeLookup::new / per_name_lookup population carry no discharged obligation"
A3 = "A3 dependencies: integer-encoding 4.1.0 is verified as linked inside the varint contracts; rust_decimal, serde derive output, serde::de::value helpers, serde_json, flate2, rand are trusted / out of scope"
A4 = "A4 alloc::fmt::format (and core::fmt::write where stated) are stubbed: error values are compared only as Err(_), no contract mentions a message"
A6 = "A6 parametricity: the generic (de)serializer touches its reader/writer/child types only through the trait methods under contract (not machine-checked)"
A7 = "A7 machine integers are CBMC bit-vectors on a 64-bit target (exact); Verus lemmas use int/nat with explicit range hypotheses"
A8 = "A8 Kani 0.68 MIR->goto translation, CBMC 6.11 + CaDiCaL, Verus 0.2026.09.13 + Z3, and the engine scripts are trusted"
A9 = "A9 default cargo features only (deflate), as the pinned test command builds"
A11 = "A11 read_decimal on the paths that enter rust_decimal is not under contract: where a caller's routing to it is the obligation (ignored decimal over fixed) its contract 'reads exactly the decimal's own bytes' is ASSUMED (discharged only on the integer-hinted scale-0 path)"
A12 = "A12 the Verus lemma units (block_partition, record_order, reader_trace, writer_history) are lemmas over the step contracts as written in their headers; the correspondence between each abstract step and the Kani postconditions it quotes is by reading, not mechanical"

PROPS = {
    "C01": {
        "level": "proof",
        "design_ref": "DESIGN.md §3 C01",
        "technique": "Kani contract harnesses: real Serialize/Deserialize impls through the real datum (de)serializer per node kind (all values) where one query is tractable; otherwise the per-cell encode contract (real serializer == spec_enc) and decode contract (real deserializer == spec_dec) against the executable spec, joined by a machine-checked lemma that the spec decoder inverts the spec encoder",
        "level_text": "Deductive proof per node kind. Direct decode(encode(v)) == v through serde's own impls and the repository's real (de)serializer for every f64/f32 bit pattern, both booleans, "
                      "and Option<i64> over both union branch orders (all i64). For the varint kinds (int, long and their logical types) the round trip in one query does not finish under CBMC; "
                      "it is proved in three machine-checked parts: real serializer output == spec_enc(v) for every integer width (C02 cells), real deserializer == spec_dec on EVERY byte string "
                      "(C03 cells), and spec_dec(spec_enc(v) ++ rest) == (v, len) for all i64 / i32 (Kani lemma c01_spec_varint_inverse). Duration: all 2^96 triples encode to the 12 specified bytes, "
                      "decode contract in C03. Length-bounded kinds (bytes/string/fixed, arrays) are bounded stand-ins and labelled so.",
        "level_note": "Composite schemas are covered compositionally, not end-to-end: arrays/maps via the block writer/reader step contracts, records only via C13's step family (encode side), unions with an "
                      "explicitly given type-directed table (PerTypeLookup::new and all name lookups are HashMap-based, A2); the structural induction over schemas that joins the per-kind results is an "
                      "argument in DESIGN.md, not machine-checked (A6); user types' derive output is trusted (A3); decimals with non-zero scale enter rust_decimal (A3).",
        "assumptions": [A1, A2, A3, A4, A6, A7, A8],
        "explanation": "Round-trip harnesses: double, float, boolean, Option<long> (both branch orders); lemma c01_spec_varint_inverse; c01_duration_tuple_encode; plus every harness of the "
                       "ser_cells, seq_steps, block_writer, duration_struct, de_cells and de_blocks units tagged C01 (encode side: conforming values must serialize to the spec bytes; decode side: typed decode "
                       "equals the spec value, borrowed str/bytes point into the input).",
        "not_decided": ["recursive / deeply nested schemas end-to-end (covered by induction over the per-kind contracts, not executed)",
                        "name-directed union selection, enum by symbol name, records by field name (HashMap, A2)",
                        "decimals with non-zero scale and str/f64 presentations (rust_decimal, A3); decimal decode (read_decimal) only on the integer-hinted scale-0 path (C03)"],
    },
    "C02": {
        "verus": ["union_priority"],
        "level": "proof",
        "design_ref": "DESIGN.md §3 C02",
        "technique": "Kani contract harnesses per (serde call x schema node kind) cell on the real Serializer impl, postcondition = independent executable Avro spec",
        "level_text": "Deductive proof per cell of the (serde call x node kind) matrix: for every value of the presented type the real serializer returns Err, or Ok with "
                      "exactly the specification's bytes, and Err whenever the node cannot represent the value. Value domains are complete (all bit patterns); "
                      "payload lengths of bytes/str/sequence cells are bounded and labelled so.",
        "level_note": "Nodes are static SchemaNode values handed to the real serializer through serializer_overriding_schema_root; name->index lookups (enum symbol by str, "
                      "record field by name, union branch by name) are HashMap-based and assumed (A2); decimals from str/f64 go through rust_decimal (A3).",
        "assumptions": [A1, A2, A3, A4, A7, A8],
        "explanation": "Cells covered: every integer width x {int,date,time-millis,long,time-micros,timestamp-*,decimal(bytes),decimal(fixed n)} and rejection by non-numeric nodes; "
                       "f32/f64 x {float,double}; bool/unit/none/unit-struct/unit-variant x {boolean,null,long}; bytes/str x {bytes,string,uuid,fixed,duration} and rejections; "
                       "tuple (u32,u32,u32) -> duration (all 2^96); seq elements into {fixed, duration} and struct {months,days,milliseconds} -> duration as one-step contracts from an arbitrary position "
                       "(seq_steps, duration_struct); the array/map block writer's new / signal / end steps incl. the advertised-length checks (block_writer). Whole seq -> array presentations and map entries "
                       "end-to-end do not finish (attic); struct -> record is C13's step family.",
        "not_decided": ["str -> enum symbol, struct name -> union branch (HashMap lookups, A2)",
                        "str / f64 -> decimal (rust_decimal parse, rescale: trusted dependency A3)",
                        "which (key, priority) pairs PerTypeLookup::new registers per node kind (the table itself; populates a HashMap) - only its priority/conflict resolution step is proved (Verus)"],
    },
    "C03": {
        "verus": ["block_partition"],
        "level": "proof",
        "design_ref": "DESIGN.md §3 C03",
        "technique": "Kani contract harnesses on the decoder's primitives and one-step block-reader contracts from arbitrary state, oracle = executable Avro spec; Verus lemma lifts the step contract to any block partition",
        "level_text": "Deductive proof per decoding primitive over every byte string it can examine: the decoded value is the specification's value for every valid "
                      "encoding (varints incl. extremes, bool, floats, length-delimited, enum/union index), and every listed malformation is Err. Block layouts: "
                      "read_block_len and BlockReader::has_more are proved as inductive one-step contracts from an ARBITRARY reader state, so any number of blocks "
                      "in positive- or negative-count form is covered; a bounded end-to-end harness ties the step function to the real SeqAccess.",
        "level_note": "UTF-8 validation delegates to core::str::from_utf8 (trusted std, A1); lengths of strings/arrays in end-to-end harnesses bounded and labelled; A4 A6 A8.",
        "assumptions": [A1, A3, A4, A6, A7, A8, A12],
        "explanation": "Functions under contract: SliceRead::read_varint/read_slice/read_const_size_buf, read_bool, read_len/read_length_delimited, read_discriminant, "
                       "read_enum_as_str, read_union_discriminant, deserialize_option, read_block_len, BlockReader::has_more, ArraySeqAccess, read_decimal (integer-hinted scale-0 path; rust_decimal entry shut by a frame obligation).",
        "not_decided": ["over-long (non-minimal) varints are accepted for in-range values: the property's list of invalid inputs does not include them",
                        "decimal decode (read_decimal): discharged only on the integer-hinted scale-0 path for fixed(0|1|16|17) and the empty / negative-length bytes payload; bytes payloads of 1..=16 do not finish; rust_decimal conversion and formatting are trusted (A3)"],
    },
    "C04": {
        "level": "proof",
        "design_ref": "DESIGN.md §3 C04",
        "technique": "Kani safety contracts (no panic / overflow / out-of-bounds as built-in obligations) on every decode primitive over all byte strings it can examine, plus limit contracts (depth budget, max_seq_size, max_alloc_size) as inductive step obligations",
        "level_text": "Deductive proof, for every byte string of the maximal length each decoding primitive can examine, that it returns Ok or Err with Kani's panic, arithmetic-overflow, "
                      "out-of-bounds and invalid-pointer checks as obligations (never panics, never reads outside its input); hostile lengths/counts (i64::MIN, 2^62, usize::MAX) are in the "
                      "domain. Limits: AllowedDepth::dec strictly decreases (all usize), every descent site fails at budget 0, BlockReader::has_more never lets the running element count "
                      "exceed max_seq_size from ANY state (inductive), ReaderRead::read_slice never grows its scratch beyond max_alloc_size.",
        "level_note": "Not expressible as a contract here: 'the slice path performs no heap allocation' (no allocator observer), stack bytes, wall-clock; termination is shown only as "
                      "'every loop finishes within its unwinding bound on the explored inputs'. check_for_cycles is not under contract (C19 withdrawn). A1 A4 A6 A8.",
        "assumptions": [A1, A3, A4, A6, A7, A8],
        "explanation": "Safety obligations are the built-in CBMC checks of every harness of units read_prims, de_blocks, de_cells, depth (several thousand checks per run, see cbmc_checks_total).",
        "not_decided": ["allocation-freedom of the slice path", "stack depth in bytes", "global running time bounds",
                        "composite nodes end-to-end on arbitrary bytes (covered per primitive / per step, composed by A6)"],
    },
    "C08": {
        "level": "proof",
        "design_ref": "DESIGN.md §3 C08",
        "technique": "Kani function-level contract harness over all (state, byte) + Verus inductive fold lemma on the extracted Rabin::write",
        "level_text": "Deductive proof of the checksum half: the real CRC step equals the bitwise CRC-64-AVRO definition for every state and byte (CBMC, complete), the initial/final values are the "
                      "specification's, and Verus proves on the mechanically extracted Rabin::write that writing any byte string of any length, in any split into pieces, is the fold of that step "
                      "(so streaming the canonical form into the hasher is sound). Which text is hashed - the Parsing Canonical Form writer - is NOT under contract.",
        "level_note": "Trusted: Kani/CBMC/Verus/Z3, std as modelled by Kani, the three documented mechanical rewrites of the Verus extraction. "
                      "JSON re-spelling invariance is not decided (parser out of reach).",
        "verus": ["rabin_fold"],
        "assumptions": [A1, A7, A8],
        "explanation": "CRC-64-AVRO step of the real Rabin::write proved equal to the bitwise specification for all (state, byte); unbounded fold over any byte string by Verus on the mechanically "
                       "extracted Rabin::write. The canonical-form writer over a heap node vector does not finish under CBMC even for one-node graphs (attic).",
        "not_decided": ["the Parsing Canonical Form text itself (fullnames, attribute order, first-occurrence rule): write_canonical_form is not under contract (attic: does not finish)",
                        "invariance of the fingerprint under JSON re-spelling (goes through the serde_json parser, C07)"],
    },
    "C11": {
        "level": "proof",
        "design_ref": "DESIGN.md §3 C11",
        "technique": "relational Kani contract harnesses: real SliceRead vs real ReaderRead over a chunked BufRead double, per reader primitive",
        "level_text": "Deductive proof per reader primitive (the only way the generic deserializer touches its input): for every byte string the primitive can examine "
                      "and every refill size (thorough: every partition into refills), slice and streamed readers return the same value and consume the same "
                      "number of bytes, or both fail. Varints and fixed-size reads are complete (operand-width bounded, unwinding assertions on); "
                      "read_slice/skip_bytes are bounded by input length and labelled so.",
        "level_note": "Composition from primitives to whole datums is parametricity of the generic deserializer in R (A6, not machine-checked); A1 A3 A4 A8. "
                      "Container-file input is covered through the same primitives plus C17's state-machine contracts.",
        "assumptions": [A1, A3, A4, A6, A7, A8],
        "explanation": "Each of read_varint::<i32|i64|u32|u64>, read_const_size_buf::<4|8|12|16>, read_slice, skip_bytes is checked relationally "
                       "between the two real implementations, plus the single-object reader entry point.",
        "not_decided": ["lifting primitive equivalence to whole-datum equivalence (parametricity, A6)",
                        "Take / into_left_after_take sub-readers are covered under C17"],
    },
    "C12": {
        "level": "proof",
        "design_ref": "DESIGN.md §3 C12",
        "technique": "relational Kani contract harnesses: deserialize_ignored_any vs deserialize_any on the same bytes per node kind; one-step contract of the block-skipping loop; skip_bytes contracts",
        "level_text": "Deductive proof per node kind that whenever reading a value succeeds, ignoring it succeeds and advances the input by exactly the same number of bytes: complete for the "
                      "varint fast paths (int/long read as u32/u64 without zig-zag: every byte string up to 11 bytes, so i32::MIN/i64::MIN are covered), bool, float, double, duration, fixed, "
                      "logical int/long types; bounded for length-delimited kinds; the size-prefixed block jump of read_block_len(ignored) and skip_bytes are step contracts.",
        "level_note": "Arrays/maps: the skip loop is verified for <= 2 size-prefixed blocks per call with one-byte headers (bounded, labelled) plus the hostile-size contract; "
                      "union branch ignored through unit_variant delegates to deserialize_ignored_any of the branch node (covered per kind). A1 A4 A6 A8.",
        "assumptions": [A1, A4, A6, A7, A8, A11],
        "explanation": "Harnesses: c12_skip_varint_nodes, c12_skip_fixed_size_nodes, c12_skip_length_delimited_nodes, c12_read_block_len_ignored_step, c04_read_block_len_ignored_hostile_size, "
                       "c12_skip_bytes_slice, c11_skip_bytes, c11_varint_u64/u32 (reader/slice equivalence of the skip decoders).",
        "not_decided": ["nested containers skipped element-wise end-to-end (composition of the per-kind contracts)", "more than two size-prefixed blocks per skip call"],
    },
    "C15": {
        "verus": ["writer_history"],
        "level": "proof",
        "design_ref": "DESIGN.md §3 C15",
        "technique": "inductive one-step contracts of the container Writer from an arbitrary well-formed state (Kani), block bytes compared with the specification's block layout",
        "level_text": "Deductive, inductive in the call history: each public entry point (serialize ok, serialize failing after partial output, push_serialized, finish_block, "
                      "into_inner, Drop) is proved from an ARBITRARY quiescent well-formed writer state (any element count, any sync marker, any approx_block_size incl. 0, any earlier "
                      "sink content) to re-establish well-formedness, to grow the sink only by complete blocks of the specified layout, to count a value once iff Ok, and to leave "
                      "buffer and count untouched for a failed value. Histories of any length follow by induction - machine-checked as the Verus lemma writer_history over the step contracts abstracted to values (sink blocks ++ open block == the successfully serialized values, in order, once; after a flush / into_inner / drop the file holds all of them); only the open buffer's byte length is bounded (<= 3), labelled.",
        "level_note": "Null codec only (compression is external, C05); Writer states are constructed directly (header writing by build() goes through serde flatten + serde_json and is a "
                      "bounded C06 obligation when tractable); sink = Vec<u8>; Schema via the static-node constructor; A1 A4 A8.",
        "assumptions": [A1, A4, A7, A8, A9, A12],
        "explanation": "Ghost view: sink, open block (count, bytes), pending. wf: count == 0 => buffer empty, nothing pending. Functions under contract: Writer::{serialize, "
                       "push_serialized, finish_block, flush_finished_block, into_inner, drop}, WriterInner::{serialize, push_serialized, finish_block, compressed_block}.",
        "not_decided": ["compressed codecs (external libraries, C05)", "open buffers longer than 3 bytes (the code has no length-dependent logic besides the >= approx_block_size test, which is symbolic)",
                        "element counts above i64::MAX (push_serialized with a false n_objects): the count is cast to i64"],
    },
    "C16": {
        "level": "other",
        "design_ref": "DESIGN.md §3 C16",
        "technique": "Kani contract harness on write_all_vectored against a nondeterministic sink double (every acceptance / interruption / error schedule), bounded slice lengths",
        "level_text": "Bounded deductive check (labelled bounded, not a proof for all sizes): the real write_all_vectored loop, with std's IoSlice::advance_slices, is verified "
                      "against a sink whose every write_vectored call nondeterministically accepts any prefix (0..=remaining), is interrupted, or fails hard. For every such "
                      "schedule over three slices of bounded length: Ok implies the sink holds exactly the concatenation; zero-length acceptance gives WriteZero; hard errors "
                      "surface; what was delivered before an error is a prefix. The loop has no size-dependent logic, but the bound is stated.",
        "level_note": "Bounds: slice lengths <= 2 without interruptions, <= 1 with up to 2 interruptions and a hard error (quick); <= 2 with one interruption and a hard error (thorough; the 0..=3 version exhausts 12 GB). The caller side (flush_finished_block keeps the pending block on Err) is a C15 obligation. A1 A8.",
        "assumptions": [A1, A7, A8],
        "explanation": "Functions under contract: write_all_vectored, write_all_vectored_inner (+ IoSlice::advance_slices as linked). Exhaustive over schedules within the stated "
                       "slice-length bounds via symbolic choice, not sampled.",
        "not_decided": ["slices longer than the bound (needs an inductive invariant over &mut &mut [IoSlice], outside Verus' subset)",
                        "plain (non-vectored) header write goes through std's Write::write_all (trusted std, A1)"],
    },
    "C17": {
        "verus": ["reader_trace"],
        "jobs": 3,  # the transition harnesses peak at ~9 GB each
        # the only long loop is the 16-byte sync-marker comparison (memcmp): give it its own bound
        # instead of unwinding every loop and recursion 19 times
        "kani_args": ["CBMC:--unwindset", "CBMC:memcmp.0:18"],
        "level": "other",
        "design_ref": "DESIGN.md §3 C17",
        "technique": "one contract per transition of the container Reader's state machine (Kani), each from a state written in place, datum decoder abstracted by a seed that ignores its deserializer; Broken / end-of-stream latch contracts; Take sub-reader contracts (null codec); Verus lemma composing the transitions into 'error reported once, then end of stream' for call histories of any length",
        "level_text": "Deductive per-transition contracts (not a whole-file proof): from NotInBlock over every body of 0..=3 bytes and every sync marker - empty => end of stream, non-empty => never a silent end of stream, "
                      "EVERY error (cut inside the count varint, inside the size varint, negative count/size, declared size larger than the input) sets the end-of-stream latch; InBlock with objects left => one value per call, "
                      "count - 1, nothing proportional to a hostile declared count; leaving a block over all 16 trailing bytes x all header markers - unconsumed block data => Err, marker differing from the header's => Err, both latched, "
                      "matching marker exactly after the declared size and exhausted input => clean end of stream; Broken => Err once then latch; latch => end of stream forever without reading; slice Take contract for inputs up to 6 bytes "
                      "and any block size, streamed io::Take variant up to 5 bytes and every refill size.",
        "level_note": "Null codec only (the deflate arm is shut by two frame obligations: inflate state never constructed, inflate never entered); compressed codecs and the snappy CRC are external (C05); the reader is constructed past the "
                      "file header (header parsing is serde_json, out of reach). The datum decoder inside a block is abstracted (its contracts are C03): payload consumption is represented by the consumed/unconsumed parameter of the "
                      "leave-block steps. The composition of the transitions over a whole damaged file (prefix-only) is argued in DESIGN.md, not machine-checked; the whole-file harnesses do not finish (attic). A1 A4 A8 A9.",
        "assumptions": [A1, A4, A6, A7, A8, A9, A12],
        "explanation": "Harnesses: c17_not_in_block_step, c17_in_block_value_step_{last,max}, c17_leave_block_step_{empty_block,consumed_block,data_left}, c17_broken_and_eof_latches, c17_slice_take_contract, "
                       "c17_reader_take_contract. Every framing error path of deserialize_next_inner ends in a state where the latch is set; the latch contract then gives 'reported once, then end of stream'.",
        "not_decided": ["whole damaged files end-to-end (every truncation offset through successive calls): attic, does not finish; covered per transition",
                        "a declared object count larger than the block's contents (needs the real datum decoder inside the step)",
                        "compressed codecs, snappy CRC32 (external libraries)", "I/O errors injected at every read call of a streaming reader"],
    },
    "C18": {
        "level": "proof",
        "design_ref": "DESIGN.md §3 C18",
        "technique": "Kani contract harnesses on check_header / from_single_object_{slice,reader} / to_single_object, full input domain",
        "level_text": "Deductive proof for all inputs of the functions under contract: header acceptance iff marker and fingerprint match (2^144 cases), "
                      "truncated headers rejected, payload decoded exactly as the datum decoder does, reader path identical under chunking, writer layout exact.",
        "level_note": "Schema built by an injected constructor (static nodes), value type long; CRC-64 collisions cannot be excluded; A1 A4 A6 A8.",
        "assumptions": [A1, A4, A6, A7, A8,
                        "Schema values are built by the injected constructor mk_schema (private fields set directly), not by parse/freeze"],
        "explanation": "check_header for all 2^80 headers x all fingerprints; slice and reader entry points for node long over all inputs "
                       "up to header+varint length; to_single_object output layout for all i64.",
        "not_decided": ["a different canonical form with a colliding CRC-64 cannot be excluded by any contract (property holds up to collisions)",
                        "value types other than long after the header (the datum path is C01/C03's subject)"],
    },
}




PROPS["C13"] = {
    "verus": ["record_order"],
    "level": "other",
    "design_ref": "DESIGN.md §3 C13",
    "technique": "inductive one-step contracts of the real serialize_record_value from every well-formed state shape of a 3-field record (states built in place), Kani; end() on its error paths; Verus lemma lifting the step contract to any presentation order of a record of any size",
    "level_text": "Bounded deductive check, exhaustive at its size: the record serializer's core step serialize_record_value is verified from EVERY well-formed (state shape, presented index) pair of a "
                  "3-field record (17 pairs; buffered bytes, value and pool content symbolic; plus two shapes where the early field's encoding is EMPTY - a null field - which must still be recorded as presented, rejected when presented twice, and flushed in turn): the next expected field is written followed by every contiguous already-buffered successor in schema order, "
                  "current_idx / expected_fields advance in step, non-contiguous buffers are kept, a later field is buffered without output, a field presented twice is Err. Because each step is proved "
                  "from any state shape and re-establishes the invariant, any presentation order of the three fields is covered. end(): only the missing-required-field error paths are discharged.",
    "level_note": "The name->index step field_idx is HashMap-based and NOT under contract (A2): the step takes the index it would yield. end()'s Ok paths (omitted nullable field encoded as null, "
                  "remaining buffers flushed) exceed 24 GB of solver memory and are not decided; records with more than 3 fields, nested records, the SerializeMap presentation are not covered. A1 A2 A4 A8 A10.",
    "assumptions": [A1, A2, A4, A7, A8, A12],
    "explanation": "Invariant INV of RecordState: current_idx <= n, expected_fields == fields[current_idx..], buffers[i] is None for i <= current_idx. 17 step harnesses + 2 zero-length-encoding step harnesses + 2 end() error-path harnesses; "
                   "each asserts INV afterwards and that every buffer returned to the pool is empty.",
    "not_decided": ["field_idx (name lookup; unknown / duplicate detection by name)", "end(): omitted null / union-with-null fields encoded as the null branch; flushing of remaining buffers on the Ok path",
                    "records with more than 3 fields; nested out-of-order records sharing the pool; map presentation"],
}

PROPS["C14"] = {
    "level": "other",
    "design_ref": "DESIGN.md §3 C14",
    "technique": "representation invariant of the configuration's buffer pools (every pooled buffer empty) asserted after every step contract of the record serializer, incl. a failing end() with a pending buffer (Drop path), Kani",
    "level_text": "Bounded deductive check of the invariant that makes reuse safe: after every one of the 17 serialize_record_value step shapes (pool initially empty or holding a recycled buffer) and after "
                  "end() failing with a field still buffered (the buffer is handed back by KindRecord::drop), every buffer sitting in the configuration's pools is empty - so the `assert!(v.is_empty())` "
                  "guarding the next pop cannot fire and no stale bytes can reach a later record. Since every step re-establishes the invariant from an arbitrary pool satisfying it, histories of any length follow.",
    "level_note": "The probe-equality formulation (used configuration vs fresh configuration on whole serializations) does not finish under CBMC and is replaced by the invariant; the buffered-bytes "
                  "sequence path (seq_or_tuple.rs buffered_bytes / end / Drop) has its own step contracts (buffer of <= 2 bytes: the constructor pops an empty buffer, end and Drop hand it back empty); sink I/O errors are not covered; Drop on the success path and end()'s Ok paths are not decided. A1 A2 A4 A8.",
    "assumptions": [A1, A2, A4, A7, A8],
    "explanation": "pool_wf := all of field_reordering_buffers and field_reordering_super_buffers are empty vectors. Asserted at the end of every harness of unit record_steps, and by c02_seq_buffered_bytes_end_and_drop / c14_buffered_bytes_constructor (unit seq_steps).",
    "not_decided": ["whole-serialization probe equality on a reused configuration", "failures injected by the sink", "Drop after a successful end()"],
}

PROPS["C06"] = {
    "level": "proof",
    "design_ref": "DESIGN.md §3 C06",
    "technique": "Kani contract harnesses on the container writer's block construction: block header for every element count, flush passes exactly [header, data, sync] (shared with C15)",
    "level_text": "Deductive proof of the block layout only: for every element count 1..=i64::MAX and buffer length the block header is spec long(count) ++ spec long(byte length) "
                  "(never overrunning its 20-byte buffer), and from any well-formed writer state a flush hands the sink exactly [header, data, the header's sync marker]; "
                  "the vectored write delivering those three slices unchanged is C16's contract.",
    "level_note": "File header (magic, metadata map with avro.schema / avro.codec / user metadata) is NOT under contract (serde flatten + serde_json); codec framing is external (C05); "
                  "reading files produced by other writers is covered only through the block-reader step contracts of C03; no second implementation is consulted. Null codec. A1 A4 A8 A9.",
    "assumptions": [A1, A4, A7, A8, A9],
    "explanation": "Obligations shared with C15: c15_block_header_all_counts (complete), c15_finish_block_step, c15_serialize_ok_step, c15_push_serialized_step.",
    "not_decided": ["file header layout and metadata map", "codec names and codec framing (snappy CRC, raw deflate)", "interoperability with apache-avro (a second implementation is a different family)",
                    "metadata order / extra keys on the read side"],
}


NOT_APPLICABLE = [
    {"property_id": "C19", "reason": "attempted and withdrawn: the real canonical-form traversal over a heap-allocated node vector does not finish under CBMC even for the concrete one-node graph (node kinds read back from the heap are not constant-folded, the recursion is unwound ~10 call sites per level); text parsing is serde_json. The defect this property exposes (F4: stack overflow on unnamed cycles) was found by running the real crate and is fixed in /repo (3ef4cc7)"},
    {"property_id": "C10", "reason": "contract-based verification decides properties of one call; this property quantifies over API histories, drop orders and thread interleavings, and Kani has no threads. The one sub-claim with a function boundary - the unsafe constructor Schema::try_from on bounded graphs - needs canonical_form/serialize_to_json stubbed and unions/records excluded (their construction hashes) and was not built; every other harness dereferences NodeRefs under Kani's pointer checks, which is supporting evidence only"},
    {"property_id": "C05", "reason": "quantifies over external compression libraries (miniz_oxide via flate2; bzip2/xz/zstd/snappy are FFI or not compiled by the pinned default-feature build): no contract within reach of Kani/Verus can state inflate(deflate(x)) == x, and assuming it leaves nothing of the property to decide; the repository-side framing obligations are discharged under C06/C15/C17 for the null codec"},
    {"property_id": "C07", "reason": "the behaviour lives in one 200-line recursive function over a serde_json-deserialized AST with a HashMap name table and inline string rules: no function boundary to put a contract on without rewriting it (a model), CBMC does not get through serde_json or HashMap (measured), Verus accepts neither serde-derived types nor str reasoning"},
    {"property_id": "C09", "reason": "both directions are serde_json text production/consumption plus the parser of C07; 'parses back to an isomorphic graph' needs the parser under contract; string/JSON reasoning is outside both verifiers' reach here"},
    {"property_id": "C20", "reason": "the subject is a proc-macro (token stream -> Rust code) and the quantifier is over programs (type definitions): neither verifier can take a proc-macro as the code under contract and the generated code differs per type, so there is no fixed function to annotate"},
]

# development aid only (never registered): `VERIF_DEV=1 ./check XDEV` runs harnesses annotated
# `props: XDEV` (experiments being brought up) without touching any claimed property's check
import os as _os
if _os.environ.get("VERIF_DEV"):
    PROPS["XDEV"] = {"kani_args": ["CBMC:--unwindset", "CBMC:memcmp.0:40"], "level": "other", "design_ref": "-",
                     "technique": "-", "level_text": "-", "level_note": "-", "assumptions": [], "explanation": "-",
                     "not_decided": []}
