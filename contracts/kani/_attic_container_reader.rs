// NOT LOADED (file name starts with "_"): harnesses removed from unit container_reader under the
// fallback rule of DESIGN.md §2a - they do not finish within the thorough budget on the unchanged
// tree (OOM at 14 GB / > 1800 s: the deflate arms of the reader's state enum stay reachable and
// drag BufReader<DeflateDecoder> decoding into every call).  Kept as documentation of the contracts
// that were attempted; listed under not_decided for C17.

//@ harness: c17_truncated_at_every_offset
//@   props: C17
//@   tier: quick
//@   kind: bounded(file body of one block with one value; every truncation offset 0..=21 incl. inside the count varint, inside the size varint, before the data, inside the sync marker)
//@   fn: object_container_file_encoding::reader::Reader::{deserialize_next, deserialize_seed_next, deserialize_next_inner} + SliceRead::take / SliceReadTake::into_left_after_take
//@   domain: every value v (one-byte varint), every sync marker, every cut offset; three successive calls
//@   post: the results are a prefix of the written values (each exactly as written), then at most ONE error, then end of stream for every later call; the complete file yields the value then end of stream; no panic, no endless loop (unwinding assertions)
#[kani::proof]
#[kani::unwind(5)]
#[kani::stub(alloc::fmt::format, stub_format)]
#[kani::stub(flate2::Decompress::decompress, verif_unreachable_inflate)]
fn c17_truncated_at_every_offset() {
	let v: i64 = kani::any();
	kani::assume(v >= -64 && v < 64);
	let sync: [u8; 16] = kani::any();
	let file = one_block(v, &sync);
	let cut: usize = kani::any();
	kani::assume(cut <= 21);
	let mut r = reader_over!(&file[..cut], sync);
	let a = next(&mut r);
	let b = next(&mut r);
	let c = next(&mut r);
	kani::cover!(cut == 1 && a == Out::Error, "COV cut inside the count varint");
	kani::cover!(cut == 3 && a == Out::Error, "COV cut inside the size varint");
	kani::cover!(cut == 10 && a == Out::Val(v) && b == Out::Error, "COV cut inside the sync marker");
	if cut == 21 {
		assert!(a == Out::Val(v) && b == Out::End && c == Out::End, "OBL C17.complete_file.value_then_end_of_stream");
	} else if cut == 0 {
		assert!(a == Out::End && b == Out::End && c == Out::End, "OBL C17.empty_body.end_of_stream");
	} else {
		// genuine prefix only
		assert!(a == Out::Val(v) || a == Out::Error, "OBL C17.truncated.first_result_is_the_written_value_or_an_error");
		if a == Out::Error {
			assert!(b == Out::End && c == Out::End, "OBL C17.truncated.error_reported_once_then_end_of_stream");
		} else {
			assert!(b == Out::Error, "OBL C17.truncated.missing_sync_marker_is_an_error");
			assert!(c == Out::End, "OBL C17.truncated.error_reported_once_then_end_of_stream");
		}
	}
	std::mem::forget(r);
}

//@ harness: c17_corrupted_framing
//@   props: C17
//@   tier: quick
//@   kind: bounded(file body of one block with one value; one symbolic byte of the sync marker overwritten, or a declared size / object count that disagrees with the contents)
//@   fn: object_container_file_encoding::reader::Reader::deserialize_next_inner (sync comparison, into_left_after_take, count bookkeeping)
//@   domain: every sync marker, every position/value of a corrupted sync byte; declared byte size 0, 1, 2; declared count 0, 1, 2
//@   post: a trailing sync marker that differs from the header's is an error; a block whose declared size or count disagrees with its contents is an error (never a value that was not written, never silently accepted); after the error: end of stream
#[kani::proof]
#[kani::unwind(5)]
#[kani::stub(alloc::fmt::format, stub_format)]
#[kani::stub(flate2::Decompress::decompress, verif_unreachable_inflate)]
fn c17_corrupted_framing() {
	let v: i64 = kani::any();
	kani::assume(v >= -64 && v < 64);
	let sync: [u8; 16] = kani::any();
	let mut file = one_block(v, &sync);
	let which: u8 = kani::any();
	kani::assume(which < 3);
	let mut results_must_error = true;
	match which {
		0 => {
			// corrupt one byte of the trailing sync marker
			let i: usize = kani::any();
			kani::assume(i < 16);
			let x: u8 = kani::any();
			kani::assume(x != sync[i]);
			file[5 + i] = x;
		}
		1 => {
			// declared byte size disagrees with the contents (0 or 2 instead of 1)
			let s: u8 = kani::any();
			kani::assume(s == 0x80 || s == 0x84); // zig-zag of 0 / 2, still two-byte form
			file[2] = s;
		}
		_ => {
			// declared object count disagrees with the contents (0 or 2 instead of 1)
			let c: u8 = kani::any();
			kani::assume(c == 0x80 || c == 0x84);
			file[0] = c;
			// count 0 with size 1: the block's data is never consumed => "data left in the block"
			results_must_error = true;
		}
	}
	let mut r = reader_over!(&file[..], sync);
	let a = next(&mut r);
	let b = next(&mut r);
	let c = next(&mut r);
	let d = next(&mut r);
	let n_err = (a == Out::Error) as u8 + (b == Out::Error) as u8 + (c == Out::Error) as u8 + (d == Out::Error) as u8;
	kani::cover!(which == 0 && a == Out::Val(v) && b == Out::Error, "COV bad sync detected after the block's value");
	assert!(!results_must_error || n_err >= 1, "OBL C17.corruption.framing_disagreement_is_reported_as_an_error");
	assert!(n_err <= 1, "OBL C17.corruption.error_reported_once");
	// whatever was yielded before the error is the written value
	if let Out::Val(x) = a {
		assert!(x == v || which == 1, "OBL C17.corruption.never_a_value_that_was_not_written");
	}
	assert!(d == Out::End, "OBL C17.corruption.end_of_stream_after_the_error");
	std::mem::forget(r);
}

