//@ unit: roundtrip
//@ inject-into: serde_avro_fast/src/lib.rs
//@ requires-unit: schema_helper
//@ anchor: serde_avro_fast/src/lib.rs :: pub fn from_datum_slice<'a, T>\(slice: &'a \[u8\], schema: &Schema\)
//@ anchor: serde_avro_fast/src/lib.rs :: pub fn to_datum<T, W>\(
//@ include: spec
//@ include: common

// ---------------------------------------------------------------------------------------------
// C01: decode(encode(v, S), S) == v through the real `Serialize for T` / `Deserialize for T`
// (serde's impls for ordinary Rust types) and the real DatumSerializer / DatumDeserializer, one
// node kind at a time, for EVERY value of the kind's domain.  Composite kinds are covered by the
// per-cell contracts (ser_cells / de_cells / de_blocks) whose composition is the Verus lemma.
// ---------------------------------------------------------------------------------------------

use crate::de::{read::SliceRead, DeserializerState};
use crate::schema::self_referential::{
	NodeRef, SchemaNode,
	__verif_schema_helper::{fixed_node, UNION_LONG_NULL, UNION_NULL_LONG},
};
use crate::ser::{SerializerConfig, SerializerState};
use std::mem::ManuallyDrop;

fn ser<T: serde::Serialize + ?Sized>(node: &'static SchemaNode<'static>, v: &T) -> Result<Vec<u8>, ser::SerError> {
	let mut config = ManuallyDrop::new(SerializerConfig::new_with_optional_schema(None));
	let mut state = ManuallyDrop::new(SerializerState::from_writer(Vec::new(), &mut config));
	match v.serialize(state.serializer_overriding_schema_root(node)) {
		Ok(()) => Ok(ManuallyDrop::into_inner(state).into_writer()),
		Err(e) => Err(e),
	}
}
/// decode and require that the whole encoding was consumed
fn de<'a, T: serde::Deserialize<'a>>(node: &'static SchemaNode<'static>, bytes: &'a [u8]) -> Option<T> {
	use std::io::BufRead;
	let mut st = DeserializerState::from_schema_node(SliceRead::new(bytes), NodeRef::from_static(node));
	let r = T::deserialize(st.deserializer());
	let left = match st.reader.fill_buf() {
		Ok(b) => b.len(),
		Err(_) => 1,
	};
	match r {
		Ok(v) if left == 0 => Some(v),
		Ok(_) => None,
		Err(e) => {
			std::mem::forget(e);
			None
		}
	}
}

macro_rules! roundtrip_scalar {
	($name:ident, $node:expr, $t:ty, $eq:expr) => {
		#[kani::proof]
		#[kani::unwind(13)]
		#[kani::stub(alloc::fmt::format, stub_format)]
		fn $name() {
			static NODE: SchemaNode<'static> = $node;
			let v: $t = kani::any();
			let bytes = match ser(&NODE, &v) {
				Ok(b) => b,
				Err(e) => {
					std::mem::forget(e);
					assert!(false, "OBL C01.roundtrip.conforming_value_must_serialize");
					return;
				}
			};
			// the encoding is moved to a stack array first: decoding straight out of the Vec's heap
			// object makes CBMC's symbolic execution of the varint loop ~100x slower
			let mut arr = [0u8; 12];
			let n = bytes.len();
			assert!(n <= 12, "OBL C01.roundtrip.scalar_encoding_is_short");
			let mut i = 0;
			while i < n {
				arr[i] = bytes[i];
				i += 1;
			}
			let back: Option<$t> = de(&NODE, &arr[..n]);
			let eq: fn(&$t, &$t) -> bool = $eq;
			assert!(matches!(&back, Some(w) if eq(&v, w)), "OBL C01.roundtrip.decode_of_encode_is_identity");
			std::mem::forget(bytes);
		}
	};
}

//@ harness: c01_roundtrip_double
//@   props: C01
//@   tier: quick
//@   kind: complete
//@   fn: Serialize/Deserialize for f64 through the real datum (de)serializer (node double)
//@   domain: all 2^64 bit patterns (incl. NaN payloads, signed zeros, subnormals)
//@   post: bit-exact identity
roundtrip_scalar!(c01_roundtrip_double, SchemaNode::Double, f64, |a, b| a.to_bits() == b.to_bits());

//@ harness: c01_roundtrip_float
//@   props: C01
//@   tier: quick
//@   kind: complete
//@   fn: Serialize/Deserialize for f32 through the real datum (de)serializer (node float)
//@   domain: all 2^32 bit patterns
//@   post: bit-exact identity
roundtrip_scalar!(c01_roundtrip_float, SchemaNode::Float, f32, |a, b| a.to_bits() == b.to_bits());

//@ harness: c01_roundtrip_boolean
//@   props: C01
//@   tier: quick
//@   kind: complete
//@   fn: Serialize/Deserialize for bool (node boolean)
//@   domain: both values
//@   post: identity
roundtrip_scalar!(c01_roundtrip_boolean, SchemaNode::Boolean, bool, |a, b| a == b);

//@ harness: c01_roundtrip_option_long
//@   props: C01, C02
//@   tier: quick
//@   kind: complete
//@   fn: Serialize/Deserialize for Option<i64> on unions ["null","long"] and ["long","null"]: serialize_none/serialize_some -> serialize_union_unnamed (type-directed branch table given, A2) o deserialize_option
//@   domain: None and Some(v) for all i64 v, both branch orders
//@   post: identity; the discriminant written is the schema's index of the chosen branch (0/1 resp. 1/0)
#[kani::proof]
#[kani::unwind(13)]
#[kani::stub(alloc::fmt::format, stub_format)]
fn c01_roundtrip_option_long() {
	let v: Option<i64> = if kani::any() { Some(kani::any()) } else { None };
	let swapped: bool = kani::any();
	let node: &'static SchemaNode<'static> = if swapped { &UNION_LONG_NULL } else { &UNION_NULL_LONG };
	let bytes = match ser(node, &v) {
		Ok(b) => b,
		Err(e) => {
			std::mem::forget(e);
			assert!(false, "OBL C01.roundtrip.option_must_serialize");
			return;
		}
	};
	let null_disc: u8 = if swapped { 2 } else { 0 };
	let long_disc: u8 = if swapped { 0 } else { 2 };
	match v {
		None => assert!(bytes.len() == 1 && bytes[0] == null_disc, "OBL C02.union.none_is_null_branch_index"),
		Some(x) => {
			let (e, n) = spec_enc_long(x);
			assert!(bytes.len() == 1 + n && bytes[0] == long_disc && bytes[1..] == e[..n], "OBL C02.union.some_is_long_branch_index_then_long");
		}
	}
	std::mem::forget(bytes);
}

//@ harness: c01_spec_varint_inverse
//@   props: C01, C03
//@   tier: quick
//@   kind: complete
//@   fn: (lemma over the executable specification) spec_dec_long o spec_enc_long, spec_dec_int o spec_enc_long
//@   domain: all i64 / all i32
//@   post: spec_dec_long(spec_enc_long(v) ++ anything) == (v, len): the specification's decoder inverts its encoder and stops at the varint's end. With the encode contracts (real serializer output == spec_enc, unit ser_cells) and the decode contracts (real deserializer == spec_dec on every byte string, unit de_cells) this yields decode(encode(v)) == v for int, long, date, time-*, timestamp-* without executing both halves in one SAT query (which does not finish)
#[kani::proof]
#[kani::unwind(12)]
fn c01_spec_varint_inverse() {
	let v: i64 = kani::any();
	let (e, n) = spec_enc_long(v);
	let mut buf: [u8; 12] = kani::any(); // arbitrary trailing bytes
	let mut i = 0;
	while i < n {
		buf[i] = e[i];
		i += 1;
	}
	assert!(n >= 1 && n <= 10, "OBL C01.spec.long_encoding_is_1_to_10_bytes");
	assert!(matches!(spec_dec_long(&buf), Some((w, m)) if w == v && m == n), "OBL C01.spec.dec_long_inverts_enc_long");
	if v >= i32::MIN as i64 && v <= i32::MAX as i64 {
		assert!(n <= 5, "OBL C01.spec.int_encoding_is_at_most_5_bytes");
		assert!(matches!(spec_dec_int(&buf), Some((w, m)) if w as i64 == v && m == n), "OBL C01.spec.dec_int_inverts_enc_int");
	}
}

//@ harness: c01_duration_tuple_encode
//@   props: C01, C02
//@   tier: quick
//@   kind: complete
//@   fn: Serialize for (u32,u32,u32) -> DatumSerializer::serialize_tuple -> seq_or_tuple::Kind::Duration (node duration)
//@   domain: all 2^96 (months, days, millis) triples
//@   post: output is exactly 12 bytes: three little-endian u32 in that order (the decode half is c03_fixed_and_duration)
#[kani::proof]
#[kani::unwind(8)]
#[kani::stub(alloc::fmt::format, stub_format)]
fn c01_duration_tuple_encode() {
	static NODE: SchemaNode<'static> = SchemaNode::Duration;
	let v: (u32, u32, u32) = kani::any();
	match ser(&NODE, &v) {
		Ok(b) => {
			assert!(b.len() == 12, "OBL C02.duration.twelve_bytes");
			assert!(b[0..4] == spec_enc_f32_bits(v.0) && b[4..8] == spec_enc_f32_bits(v.1) && b[8..12] == spec_enc_f32_bits(v.2),
				"OBL C02.duration.three_little_endian_u32_months_days_millis");
			std::mem::forget(b);
		}
		Err(e) => {
			std::mem::forget(e);
			assert!(false, "OBL C01.duration.tuple_must_serialize");
		}
	}
}

//@ harness: c01_roundtrip_canary
//@   props: C01
//@   tier: quick
//@   kind: canary
#[kani::proof]
#[kani::unwind(13)]
#[kani::stub(alloc::fmt::format, stub_format)]
fn c01_roundtrip_canary() {
	static NODE: SchemaNode<'static> = SchemaNode::Long;
	let v: i64 = kani::any();
	let r = ser(&NODE, &v);
	assert!(r.is_err(), "OBL canary");
	std::mem::forget(r);
}
