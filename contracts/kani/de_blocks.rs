//@ unit: de_blocks
//@ inject-into: serde_avro_fast/src/de/deserializer/types/blocks.rs
//@ anchor: serde_avro_fast/src/de/deserializer/types/blocks.rs :: fn read_block_len<'de, R>\(
//@ anchor: serde_avro_fast/src/de/deserializer/types/blocks.rs :: fn has_more<'de>\(&mut self\) -> Result<bool, DeError>
//@ anchor: serde_avro_fast/src/de/deserializer/types/blocks.rs :: fn next_element_seed<T>\(&mut self, seed: T\)
//@ include: spec
//@ include: common

use crate::schema::self_referential::NodeRef;

static LONG_NODE: SchemaNode<'static> = SchemaNode::Long;

fn state_over<'a>(bytes: &'a [u8]) -> DeserializerState<'static, SliceRead<'a>> {
	DeserializerState::from_schema_node(SliceRead::new(bytes), NodeRef::from_static(&LONG_NODE))
}
fn remaining<R: std::io::BufRead>(r: &mut R) -> usize {
	match r.fill_buf() {
		Ok(b) => b.len(),
		Err(_) => usize::MAX,
	}
}

//@ harness: c03_read_block_len_step
//@   props: C03, C04, C12
//@   tier: quick
//@   kind: complete
//@   fn: de::deserializer::types::blocks::read_block_len (ignored = false)
//@   domain: every 21-byte window (two maximal varints + 1), truncated at every length 0..=21
//@   post: header count c > 0 => Some(c), consumed = its varint; c == 0 => None (end of array); c < 0 (incl. i64::MIN) => the byte-size varint is consumed as well and |c| is returned without overflow; malformed/truncated header => Err; never panics
#[kani::proof]
#[kani::unwind(13)]
#[kani::stub(alloc::fmt::format, stub_format)]
fn c03_read_block_len_step() {
	let buf: [u8; 21] = kani::any();
	let len: usize = kani::any();
	kani::assume(len <= 21);
	let input = &buf[..len];
	let mut st = state_over(input);
	let r = read_block_len(&mut st, false);
	let consumed = len - remaining(&mut st.reader);
	match spec_dec_long(input) {
		None => assert!(r.is_err(), "OBL C03.block_len.bad_count_varint_is_err"),
		Some((c, n)) => {
			if c > 0 {
				kani::cover!(c == i64::MAX, "COV count i64::MAX");
				assert!(matches!(r, Ok(Some(k)) if k.get() as u64 == c as u64), "OBL C03.block_len.positive_count_returned");
				assert!(consumed == n, "OBL C03.block_len.positive_count_consumes_only_its_varint");
			} else if c == 0 {
				assert!(matches!(r, Ok(None)), "OBL C03.block_len.zero_count_is_end");
				assert!(consumed == n, "OBL C03.block_len.end_marker_consumes_one_varint");
			} else {
				// negative count: |c| items, followed by the block's byte size (any u64-range varint)
				match spec_dec_varint(&input[n..]) {
					None => assert!(r.is_err(), "OBL C03.block_len.negative_count_needs_byte_size"),
					Some((_size, m)) => {
						kani::cover!(c == i64::MIN, "COV count i64::MIN");
						let abs: u64 = (-(c as i128)) as u64;
						assert!(matches!(r, Ok(Some(k)) if k.get() as u64 == abs), "OBL C03.block_len.negative_count_is_its_absolute_value");
						assert!(consumed == n + m, "OBL C03.block_len.negative_count_consumes_count_and_size");
					}
				}
			}
		}
	}
	std::mem::forget(r);
}

//@ harness: c12_read_block_len_ignored_step
//@   props: C12, C03
//@   tier: quick
//@   kind: bounded(one-byte varint headers; <= 2 size-prefixed blocks of <= 2 payload bytes before the next header)
//@   fn: de::deserializer::types::blocks::read_block_len (ignored = true)
//@   domain: input = [c1][s1][payload..][c2][s2].. built from symbolic one-byte counts/sizes and symbolic payload, 7 bytes, truncated anywhere
//@   post: each size-prefixed (negative-count) block is skipped by exactly its advertised byte size and the loop goes on to the next header; the first non-negative header is returned (count, or end); a byte size that is negative or larger than the remaining input => Err
#[kani::proof]
#[kani::unwind(9)]
#[kani::stub(alloc::fmt::format, stub_format)]
fn c12_read_block_len_ignored_step() {
	let buf: [u8; 7] = kani::any();
	let len: usize = kani::any();
	kani::assume(len <= 7);
	// every byte is a complete one-byte varint (MSB clear); payload bytes are unconstrained by
	// this too, which only shrinks the payload alphabet, not the control flow explored
	let mut q = 0;
	while q < 7 {
		kani::assume(buf[q] < 0x80);
		q += 1;
	}
	let input = &buf[..len];
	let mut st = state_over(input);
	let r = read_block_len(&mut st, true);
	let consumed = len - remaining(&mut st.reader);
	// reference walk per the specification
	let mut pos = 0usize;
	let mut skipped = 0;
	let mut outcome: u8 = 0; // 0 = Err expected, 1 = end, 2 = count
	let mut count: u64 = 0;
	let mut it = 0;
	while it < 4 {
		if pos >= len {
			outcome = 0;
			break;
		}
		let c = spec_unzigzag(input[pos] as u64);
		pos += 1;
		if c >= 0 {
			outcome = if c == 0 { 1 } else { 2 };
			count = c as u64;
			break;
		}
		if pos >= len {
			outcome = 0;
			break;
		}
		let size = spec_unzigzag(input[pos] as u64);
		pos += 1;
		if size < 0 || size as usize > len - pos {
			outcome = 0;
			break;
		}
		pos += size as usize;
		skipped += 1;
		it += 1;
	}
	kani::cover!(outcome == 2 && skipped == 1, "COV one block jumped then a count");
	kani::cover!(outcome == 1 && skipped == 2, "COV two blocks jumped then end");
	match outcome {
		0 => assert!(r.is_err(), "OBL C12.block_skip.malformed_is_err"),
		1 => {
			assert!(matches!(r, Ok(None)), "OBL C12.block_skip.reaches_end_marker");
			assert!(consumed == pos, "OBL C12.block_skip.skips_exactly_the_advertised_bytes");
		}
		_ => {
			assert!(matches!(r, Ok(Some(k)) if k.get() as u64 == count), "OBL C12.block_skip.next_positive_block_returned");
			assert!(consumed == pos, "OBL C12.block_skip.skips_exactly_the_advertised_bytes");
		}
	}
	std::mem::forget(r);
}

//@ harness: c04_read_block_len_ignored_hostile_size
//@   props: C04, C12
//@   tier: quick
//@   kind: complete
//@   fn: de::deserializer::types::blocks::read_block_len (ignored = true) + SliceRead::skip_bytes
//@   domain: header count -1, followed by ANY byte-size varint (all i64 incl. negative, 2^62, i64::MAX) and nothing else
//@   post: size 0 is accepted (then the header is missing => Err at end of input); any size > 0 or < 0 => Err; no overflow, no out-of-bounds, no loop
#[kani::proof]
#[kani::unwind(13)]
#[kani::stub(alloc::fmt::format, stub_format)]
fn c04_read_block_len_ignored_hostile_size() {
	let size: i64 = kani::any();
	let (e, n) = spec_enc_long(size);
	let mut buf = [0u8; 11];
	buf[0] = 1; // zig-zag of -1
	let mut i = 0;
	while i < n {
		buf[1 + i] = e[i];
		i += 1;
	}
	let input = &buf[..1 + n];
	let mut st = state_over(input);
	let r = read_block_len(&mut st, true);
	kani::cover!(size == i64::MAX, "COV size i64::MAX");
	kani::cover!(size == i64::MIN, "COV size i64::MIN");
	assert!(r.is_err(), "OBL C04.block_skip.hostile_byte_size_is_err");
	std::mem::forget(r);
}

//@ harness: c04_has_more_step
//@   props: C04, C03
//@   tier: quick
//@   kind: complete
//@   fn: de::deserializer::types::blocks::BlockReader::has_more
//@   domain: ARBITRARY reader state (current_block_len, n_read: any usize), any max_seq_size, any 21-byte window of input => inductive step, holds for any number of blocks
//@   post: inside a block: Ok(true), countdown by one, input untouched, n_read unchanged. At a block boundary: next header read per read_block_len; n_read' = saturating n_read + count; n_read' > max_seq_size => Err BEFORE any element is produced; end marker => Ok(false); n_read never exceeds max_seq_size after Ok
#[kani::proof]
#[kani::unwind(13)]
#[kani::stub(alloc::fmt::format, stub_format)]
fn c04_has_more_step() {
	let buf: [u8; 21] = kani::any();
	let len: usize = kani::any();
	kani::assume(len <= 21);
	let input = &buf[..len];
	let mut st = state_over(input);
	let limit: usize = kani::any();
	st.config.max_seq_size = limit;
	let cur: usize = kani::any();
	let n_read0: usize = kani::any();
	kani::assume(n_read0 <= limit); // representation invariant established by every earlier Ok step
	let mut br = BlockReader::new(&mut st, false, AllowedDepth::new(1));
	br.current_block_len = cur;
	br.n_read = n_read0;
	let r = br.has_more();
	let cur1 = br.current_block_len;
	let n_read1 = br.n_read;
	let consumed = len - remaining(&mut st.reader);
	if cur > 0 {
		kani::cover!(cur == usize::MAX, "COV deep inside a huge block");
		assert!(matches!(r, Ok(true)), "OBL C03.has_more.inside_block_yields_element");
		assert!(cur1 == cur - 1 && n_read1 == n_read0 && consumed == 0, "OBL C03.has_more.inside_block_only_counts_down");
	} else {
		// block boundary: reference via the spec
		let hdr = spec_dec_long(input);
		match hdr {
			None => assert!(r.is_err(), "OBL C03.has_more.bad_header_is_err"),
			Some((c, n)) => {
				if c == 0 {
					assert!(matches!(r, Ok(false)) && consumed == n, "OBL C03.has_more.end_marker_ends_sequence");
				} else {
					let count: u64 = if c > 0 { c as u64 } else { (-(c as i128)) as u64 };
					let size_ok = c > 0 || spec_dec_varint(&input[n..]).is_some();
					if !size_ok {
						assert!(r.is_err(), "OBL C03.has_more.negative_count_needs_byte_size");
					} else {
						let total = (n_read0 as u64).saturating_add(count);
						if total > limit as u64 {
							kani::cover!(c == i64::MIN, "COV hostile count i64::MIN rejected");
							assert!(r.is_err(), "OBL C04.has_more.exceeding_max_seq_size_is_err_before_any_element");
						} else {
							assert!(matches!(r, Ok(true)), "OBL C03.has_more.new_block_yields_first_element");
							assert!(cur1 as u64 == count - 1, "OBL C03.has_more.countdown_starts_at_count_minus_one");
							assert!(n_read1 as u64 == total && n_read1 <= limit, "OBL C04.has_more.n_read_is_exact_running_total_within_limit");
						}
					}
				}
			}
		}
	}
	std::mem::forget(r);
}

/// seed that decodes one `long` element through the element deserializer it is handed
struct LongSeed;
impl<'de> DeserializeSeed<'de> for LongSeed {
	type Value = i64;
	fn deserialize<D: Deserializer<'de>>(self, d: D) -> Result<i64, D::Error> {
		<i64 as Deserialize>::deserialize(d)
	}
}

//@ harness: c03_array_two_block_layouts
//@   props: C03, C01
//@   tier: quick
//@   kind: bounded(<= 2 elements, <= 2 blocks, element values symbolic i64 in one-byte varint range)
//@   fn: de::deserializer::types::blocks::ArraySeqAccess::next_element_seed (+ has_more, read_block_len, real element deserializer)
//@   domain: array<long> [a, b] laid out as: one positive block; two blocks of one; one negative-count block with byte size; mixed
//@   post: every legal layout of the same value list yields a, b, then end - tying the one-step contracts to the real SeqAccess
#[kani::proof]
#[kani::unwind(13)]
#[kani::stub(alloc::fmt::format, stub_format)]
fn c03_array_two_block_layouts() {
	let a: i64 = kani::any();
	let b: i64 = kani::any();
	kani::assume(a >= -64 && a < 64 && b >= -64 && b < 64); // one-byte varints keep the layouts fixed-size
	let (ea, _) = spec_enc_long(a);
	let (eb, _) = spec_enc_long(b);
	let layout: u8 = kani::any();
	kani::assume(layout < 4);
	let mut buf = [0u8; 10];
	let len;
	match layout {
		0 => {
			// [2] a b [0]
			buf[0] = 4; buf[1] = ea[0]; buf[2] = eb[0]; buf[3] = 0;
			len = 4;
		}
		1 => {
			// [1] a [1] b [0]
			buf[0] = 2; buf[1] = ea[0]; buf[2] = 2; buf[3] = eb[0]; buf[4] = 0;
			len = 5;
		}
		2 => {
			// [-2][size 2] a b [0]
			buf[0] = 3; buf[1] = 4; buf[2] = ea[0]; buf[3] = eb[0]; buf[4] = 0;
			len = 5;
		}
		_ => {
			// [-1][size 1] a [1] b [0]
			buf[0] = 1; buf[1] = 2; buf[2] = ea[0]; buf[3] = 2; buf[4] = eb[0]; buf[5] = 0;
			len = 6;
		}
	}
	let input = &buf[..len];
	let mut st = state_over(input);
	let mut acc = ArraySeqAccess {
		elements_schema: &LONG_NODE,
		block_reader: BlockReader::new(&mut st, false, AllowedDepth::new(4)),
	};
	let x = acc.next_element_seed(LongSeed);
	assert!(matches!(x, Ok(Some(v)) if v == a), "OBL C03.array.first_element_in_every_layout");
	let y = acc.next_element_seed(LongSeed);
	assert!(matches!(y, Ok(Some(v)) if v == b), "OBL C03.array.second_element_in_every_layout");
	let z = acc.next_element_seed(LongSeed);
	assert!(matches!(z, Ok(None)), "OBL C03.array.end_after_last_block");
	drop(acc);
	assert!(remaining(&mut st.reader) == 0, "OBL C03.array.whole_encoding_consumed");
	std::mem::forget((x, y, z));
}

//@ harness: c03_de_blocks_canary
//@   props: C03, C04, C12
//@   tier: quick
//@   kind: canary
#[kani::proof]
#[kani::unwind(13)]
#[kani::stub(alloc::fmt::format, stub_format)]
fn c03_de_blocks_canary() {
	let buf: [u8; 21] = kani::any();
	let len: usize = kani::any();
	kani::assume(len <= 21);
	let mut st = state_over(&buf[..len]);
	let r = read_block_len(&mut st, false);
	assert!(r.is_err(), "OBL canary");
	std::mem::forget(r);
}
