//@ unit: duration_struct
//@ inject-into: serde_avro_fast/src/ser/serializer/struct_or_map.rs
//@ anchor: serde_avro_fast/src/ser/serializer/struct_or_map.rs :: fn serialize_duration_field<T>\(
//@ anchor: serde_avro_fast/src/ser/serializer/struct_or_map.rs :: fn end\(mut self\) -> Result<\(\), SerError> \{
//@ include: spec
//@ include: common

// C02 (struct / map presented to a `duration` node): one-step contracts from arbitrary state.

use std::mem::ManuallyDrop;

//@ harness: c02_duration_struct_steps
//@   props: C02, C01
//@   tier: quick
//@   kind: complete
//@   fn: ser::serializer::struct_or_map::{serialize_duration_field, SerializeStructAsRecordOrMapOrDuration::end (Kind::Duration)} + extract_for_duration::{DurationFieldName::from_str, ExtractU32ForDuration}
//@   domain: arbitrary state (values: any [u32;3], gotten_values: any of the 8 bit sets) x field in {months, days, milliseconds} x value any u32 (and a non-u32 presentation); end() from any state
//@   post: a field is accepted iff not presented before and presented as u32; it lands in its own slot (months=0, days=1, milliseconds=2) and only its bit is added; end(): Ok iff all three were presented, output = 12 bytes: months, days, milliseconds as little-endian u32 in THAT order whatever the presentation order
#[kani::proof]
#[kani::unwind(14)]
#[kani::stub(alloc::fmt::format, stub_format)]
#[kani::stub(core::fmt::write, stub_fmt_write)]
fn c02_duration_struct_steps() {
	let mut values: [u32; 3] = kani::any();
	let v0 = values;
	let mut gotten: u8 = kani::any();
	kani::assume(gotten < 8);
	let g0 = gotten;
	let f: u8 = kani::any();
	kani::assume(f < 3);
	let name = match f {
		0 => "months",
		1 => "days",
		_ => "milliseconds",
	};
	let field = match extract_for_duration::DurationFieldName::from_str(name) {
		Ok(x) => x,
		Err(e) => {
			std::mem::forget(e);
			assert!(false, "OBL C01.duration_struct.known_field_name_is_accepted");
			return;
		}
	};
	assert!(field as u8 == f, "OBL C02.duration_struct.field_name_maps_to_its_slot");
	let v: u32 = kani::any();
	let as_u32: bool = kani::any();
	let r = if as_u32 {
		serialize_duration_field(&mut values, &mut gotten, field, &v)
	} else {
		serialize_duration_field(&mut values, &mut gotten, field, &(v as i64))
	};
	let bit = 1u8 << f;
	if g0 & bit == 0 && as_u32 {
		assert!(r.is_ok() && gotten == g0 | bit, "OBL C02.duration_struct.field_recorded_once");
		assert!(values[f as usize] == v, "OBL C02.duration_struct.value_lands_in_its_own_slot");
		let o = ((f + 1) % 3) as usize;
		let p = ((f + 2) % 3) as usize;
		assert!(values[o] == v0[o] && values[p] == v0[p], "OBL C02.duration_struct.other_slots_untouched");
	} else {
		kani::cover!(g0 & bit != 0, "COV field presented twice");
		assert!(r.is_err() && gotten == g0, "OBL C02.duration_struct.duplicate_or_non_u32_field_is_err");
	}
	std::mem::forget(r);
	let bad = extract_for_duration::DurationFieldName::from_str("weeks");
	assert!(bad.is_err(), "OBL C02.duration_struct.unknown_field_name_is_err");
	std::mem::forget(bad);

	// end() from an arbitrary state
	let vals: [u32; 3] = kani::any();
	let g: u8 = kani::any();
	kani::assume(g < 8);
	let mut config = ManuallyDrop::new(SerializerConfig::new_with_optional_schema(None));
	let mut state = ManuallyDrop::new(SerializerState::from_writer(Vec::new(), &mut config));
	let r = {
		let s = SerializeStructAsRecordOrMapOrDuration {
			kind: Kind::Duration { serializer_state: &mut state, values: vals, gotten_values: g },
		};
		s.end()
	};
	if g == 0b111 {
		let o = &state.writer;
		assert!(r.is_ok() && o.len() == 12, "OBL C02.duration_struct.complete_struct_serializes_to_12_bytes");
		assert!(o[0..4] == spec_enc_f32_bits(vals[0]) && o[4..8] == spec_enc_f32_bits(vals[1]) && o[8..12] == spec_enc_f32_bits(vals[2]),
			"OBL C02.duration_struct.months_days_millis_little_endian_in_schema_order");
	} else {
		kani::cover!(g == 0b011, "COV milliseconds missing");
		assert!(r.is_err() && state.writer.is_empty(), "OBL C02.duration_struct.missing_field_is_err");
	}
	std::mem::forget(r);
}

//@ harness: c02_duration_struct_canary
//@   props: C02
//@   tier: quick
//@   kind: canary
#[kani::proof]
#[kani::unwind(14)]
#[kani::stub(alloc::fmt::format, stub_format)]
#[kani::stub(core::fmt::write, stub_fmt_write)]
fn c02_duration_struct_canary() {
	let mut values: [u32; 3] = kani::any();
	let mut gotten: u8 = kani::any();
	kani::assume(gotten < 8);
	let v: u32 = kani::any();
	let field = extract_for_duration::DurationFieldName::from_str("days").ok().unwrap();
	let r = serialize_duration_field(&mut values, &mut gotten, field, &v);
	assert!(r.is_err(), "OBL canary");
	std::mem::forget(r);
}
