//@ unit: block_writer
//@ inject-into: serde_avro_fast/src/ser/serializer/blocks.rs
//@ anchor: serde_avro_fast/src/ser/serializer/blocks.rs :: pub\(super\) fn new\(
//@ anchor: serde_avro_fast/src/ser/serializer/blocks.rs :: pub\(super\) fn signal_next_record\(&mut self\) -> Result<\(\), SerError>
//@ anchor: serde_avro_fast/src/ser/serializer/blocks.rs :: pub\(super\) fn end\(self\) -> Result<\(\), SerError>
//@ include: spec
//@ include: common

// ---------------------------------------------------------------------------------------------
// C02 (array / map block structure, advertised-length check): inductive one-step contracts of the
// BlockWriter state machine, each from an ARBITRARY state (current_block_len: any usize).
// Ghost reading of the state: `current_block_len` = number of elements still owed to the block
// whose count has already been written.  Invariant of the emitted stream: a sequence of
// (count > 0, that many elements) groups; `end` closes it with a 0 count, and only if nothing is owed.
// ---------------------------------------------------------------------------------------------

use std::mem::ManuallyDrop;

macro_rules! fresh_state {
	($config:ident, $state:ident) => {
		let mut $config = ManuallyDrop::new(SerializerConfig::new_with_optional_schema(None));
		let mut $state = ManuallyDrop::new(SerializerState::from_writer(Vec::new(), &mut $config));
	};
}

//@ harness: c02_block_writer_new
//@   props: C02, C01
//@   tier: quick
//@   kind: complete
//@   fn: ser::serializer::blocks::BlockWriter::new
//@   domain: every advertised minimum length (any usize)
//@   post: 0 => nothing written, nothing owed; n > 0 => exactly spec long(n) written and n elements owed (n beyond i64::MAX cannot occur on a 64-bit usize... it can: then Err)
#[kani::proof]
#[kani::unwind(13)]
#[kani::stub(alloc::fmt::format, stub_format)]
fn c02_block_writer_new() {
	let n: usize = kani::any();
	fresh_state!(config, state);
	let r = BlockWriter::new(&mut state, n);
	match r {
		Ok(bw) => {
			let owed = bw.current_block_len;
			std::mem::forget(bw);
			assert!(n as u64 <= i64::MAX as u64, "OBL C02.block_writer.count_beyond_i64_must_be_err");
			assert!(owed == n, "OBL C02.block_writer.new_owes_the_advertised_count");
			if n == 0 {
				assert!(state.writer.is_empty(), "OBL C02.block_writer.no_header_for_unknown_length");
			} else {
				let (e, k) = spec_enc_long(n as i64);
				kani::cover!(k == 9, "COV huge advertised length");
				assert!(state.writer.len() == k && state.writer[..] == e[..k], "OBL C02.block_writer.header_is_spec_long_of_count");
			}
		}
		Err(e) => {
			std::mem::forget(e);
			assert!(n as u64 > i64::MAX as u64, "OBL C01.block_writer.representable_count_must_be_accepted");
		}
	}
}

//@ harness: c02_block_writer_signal_step
//@   props: C02, C01
//@   tier: quick
//@   kind: complete
//@   fn: ser::serializer::blocks::BlockWriter::signal_next_record
//@   domain: arbitrary state (current_block_len: any usize)
//@   post: elements owed > 0: one less owed, nothing written (the element belongs to the already advertised block); nothing owed: a new block of exactly one element is opened (count 1 written), still nothing owed
#[kani::proof]
#[kani::unwind(6)]
#[kani::stub(alloc::fmt::format, stub_format)]
fn c02_block_writer_signal_step() {
	let owed: usize = kani::any();
	fresh_state!(config, state);
	let mut bw = ManuallyDrop::new(BlockWriter { state: &mut state, current_block_len: owed });
	let r = bw.signal_next_record();
	assert!(r.is_ok(), "OBL C02.block_writer.signal_ok");
	let owed1 = bw.current_block_len;
	if owed > 0 {
		assert!(owed1 == owed - 1 && bw.state.writer.is_empty(), "OBL C02.block_writer.element_counted_against_advertised_block");
	} else {
		assert!(owed1 == 0 && bw.state.writer.len() == 1 && bw.state.writer[0] == 2, "OBL C02.block_writer.extra_element_opens_block_of_one");
	}
	std::mem::forget(r);
}

//@ harness: c02_block_writer_end_step
//@   props: C02
//@   tier: quick
//@   kind: complete
//@   fn: ser::serializer::blocks::BlockWriter::end
//@   domain: arbitrary state (current_block_len: any usize)
//@   post: elements still owed (fewer presented than advertised) => Err and NO terminator is written (the emitted count would lie); nothing owed => the 0-count terminator is written
#[kani::proof]
#[kani::unwind(6)]
#[kani::stub(alloc::fmt::format, stub_format)]
fn c02_block_writer_end_step() {
	let owed: usize = kani::any();
	fresh_state!(config, state);
	let r = {
		let bw = BlockWriter { state: &mut state, current_block_len: owed };
		bw.end()
	};
	kani::cover!(owed == 1 && r.is_err(), "COV one element short");
	if owed != 0 {
		assert!(r.is_err() && state.writer.is_empty(), "OBL C02.block_writer.fewer_elements_than_advertised_is_err");
	} else {
		assert!(r.is_ok() && state.writer.len() == 1 && state.writer[0] == 0, "OBL C02.block_writer.terminator_is_zero_count");
	}
	std::mem::forget(r);
}

//@ harness: c02_block_writer_canary
//@   props: C02
//@   tier: quick
//@   kind: canary
#[kani::proof]
#[kani::unwind(6)]
#[kani::stub(alloc::fmt::format, stub_format)]
fn c02_block_writer_canary() {
	let owed: usize = kani::any();
	fresh_state!(config, state);
	let r = {
		let bw = BlockWriter { state: &mut state, current_block_len: owed };
		bw.end()
	};
	assert!(r.is_err(), "OBL canary");
	std::mem::forget(r);
}
