#!/usr/bin/env python3
"""Regenerates /verif/MANIFEST.json from engine/props.py (claimed checks) + NOT_APPLICABLE below."""
import json, os, sys
HERE = os.path.dirname(os.path.abspath(__file__))
sys.path.insert(0, HERE)
import props as P

m = {
    "version": 1,
    "setup_cmd": "./check --setup",
    "hooks": {
        "guard": "cfg(kani)",
        "enable": "no hook is committed to /repo: every check copies /repo's working tree to a scratch dir and appends "
                  "#[cfg(kani)] contract modules (contracts/kani/*.rs) to the copied source files; `cargo kani` sets cfg(kani)",
        "baseline_off_cmd": "cd /repo && cargo test --workspace --no-fail-fast --offline",
        "source_commits": [],
        "add_only": True,
    },
    "engines": [
        {"name": "kani-contracts", "path": "engine/check.py", "serves_properties": sorted(P.PROPS),
         "kind_free_text": "contract harnesses (pre/post against an independent executable Avro spec) appended to the real "
                           "source files under cfg(kani), discharged by Kani 0.68 / CBMC 6.11; counterexamples replayed "
                           "natively with cargo kani playback"},
        {"name": "verus-lemmas", "path": "contracts/verus", "serves_properties": sorted(p for p in P.PROPS if P.PROPS[p].get("verus")),
         "kind_free_text": "real functions extracted mechanically each run + inductive lemmas over the spec functions, Verus/Z3"},
    ],
    "checks": [],
    "not_applicable": P.NOT_APPLICABLE,
    "notes": "Exit 2 + UNDECIDED lines (never VIOLATION) are used for lost anchors, timeouts, unwinding-bound failures and "
             "vacuity-guard failures. Fixed defects are listed in known_findings.json.",
}
allp = [json.loads(l)["id"] for l in open(os.path.join(os.path.dirname(HERE), "properties.jsonl")) if l.strip()]
na = {x["property_id"] for x in P.NOT_APPLICABLE}
for pid in allp:
    if pid not in P.PROPS and pid not in na:
        m["not_applicable"] = m["not_applicable"] + [{"property_id": pid, "reason": "not claimed yet: contract units for this property are still under construction (DESIGN.md §3 describes the planned contracts); no check is registered, so nothing is asserted about it"}]
m["not_applicable"] = sorted(m["not_applicable"], key=lambda x: x["property_id"])
for pid in sorted(P.PROPS):
    c = P.PROPS[pid]
    m["checks"].append({
        "property_id": pid,
        "quick_cmd": f"./check {pid} --tier quick",
        "thorough_cmd": f"./check {pid} --tier thorough",
        "evidence_file": f"evidence/{pid}.json",
        "replay_cmd_template": f"./check {pid} --replay {{path}}",
        "engine": "kani-contracts" + ("+verus-lemmas" if c.get("verus") else ""),
        "level_claimed": {"category": c["level"], "text": c["level_text"], "design_ref": c.get("design_ref", "DESIGN.md §3")},
        "level_note": c["level_note"],
        "technique": c["technique"],
    })
json.dump(m, open(os.path.join(os.path.dirname(HERE), "MANIFEST.json"), "w"), indent=1)
print("MANIFEST.json:", len(m["checks"]), "checks,", len(m["not_applicable"]), "not applicable")
