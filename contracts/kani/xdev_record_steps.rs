//@ unit: xdev_record_steps
//@ inject-into: serde_avro_fast/src/ser/serializer/struct_or_map.rs
//@ requires-unit: schema_helper
//@ requires-unit: ser_cells
//@ anchor: serde_avro_fast/src/ser/serializer/struct_or_map.rs :: fn serialize_record_value<'r, 'c, 's, W: Write, T: \?Sized>\(
//@ anchor: serde_avro_fast/src/ser/serializer/struct_or_map.rs :: impl<'r, 'c, 's, W> Drop for KindRecord<'r, 'c, 's, W> \{
//@ include: spec
//@ include: common

// ---------------------------------------------------------------------------------------------
// C13 / C14: inductive ONE-STEP contract of the record serializer's core, `serialize_record_value`,
// from EVERY well-formed state shape of a 3-field record, each built in place (a struct literal in the
// harness body: CBMC must see the state's shape).  record R3 { a: long, b: long, c: long } for the value
// steps; R2 { a: long, b: null, c: long } and R { a: long, b: ["long","null"], c: long } for end().
//
// Ghost reading of RecordState: fields [0, current_idx) are already in the output; buffers[i] =
// Some(bytes) for i > current_idx means field i was presented early and waits; buffers[current_idx]
// is never Some (it would have been flushed).  Invariant INV:
//    current_idx <= n, expected_fields == fields[current_idx..], buffers[i].is_none() for i <= current_idx.
// The name -> index step (`field_idx`) is HashMap-based and NOT part of this contract (A2): the
// step takes the index it yields.
// ---------------------------------------------------------------------------------------------

use crate::schema::self_referential::__verif_schema_helper::{record_of, N_LONG, RECORD_ABC, RECORD_ANC, RECORD_LLL};
use crate::ser::__verif_ser_cells::*;
use std::mem::ManuallyDrop;

fn pool_wf(cfg: &SerializerConfig<'_>) -> bool {
	let mut ok = true;
	let mut i = 0;
	while i < cfg.buffers.field_reordering_buffers.len() {
		if !cfg.buffers.field_reordering_buffers[i].is_empty() {
			ok = false;
		}
		i += 1;
	}
	let mut i = 0;
	while i < cfg.buffers.field_reordering_super_buffers.len() {
		if !cfg.buffers.field_reordering_super_buffers[i].is_empty() {
			ok = false;
		}
		i += 1;
	}
	ok
}

macro_rules! end_harness {
	($name:ident, record = $rec:expr, cur = $cur:expr, $buffers:expr, expect = $expect:expr) => {
		#[kani::proof]
		#[kani::unwind(4)]
		#[kani::stub(alloc::fmt::format, stub_format)]
		#[kani::stub(core::fmt::write, stub_fmt_write)]
		fn $name() {
			let record = record_of($rec);
			let mut config = ManuallyDrop::new(SerializerConfig::new_with_optional_schema(None));
			let mut state = ManuallyDrop::new(SerializerState::from_writer(Vec::new(), &mut config));
			let b2: u8 = kani::any();
			let mk: fn(u8) -> Vec<Option<Vec<u8>>> = $buffers;
			const CUR: usize = $cur;
			let r = {
				let s = SerializeStructAsRecordOrMapOrDuration {
					kind: Kind::Record(KindRecord {
						serializer_state: &mut state,
						record_state: RecordState {
							expected_fields: record.fields[CUR..].iter(),
							current_idx: CUR,
							buffers: mk(b2),
							record,
						},
					}),
				};
				s.end() // consumes the serializer: KindRecord::drop runs here too
			};
			let out = &state.writer;
			let ex: fn(u8) -> Option<([u8; 2], usize)> = $expect;
			match ex(b2) {
				Some((bytes, n)) => assert!(r.is_ok() && out.len() == n && out[..] == bytes[..n], "OBL C13.end.omitted_nullable_field_is_null_then_buffered_fields_in_schema_order"),
				None => assert!(r.is_err(), "OBL C13.end.missing_non_nullable_field_is_err"),
			}
			let cfg: &SerializerConfig<'_> = &state.config;
			assert!(pool_wf(cfg), "OBL C14.pool.every_pooled_buffer_is_empty_after_end_or_failure");
			std::mem::forget(r);
		}
	};
}


//@ harness: x13_end_all_written
//@   props: XDEV
//@   tier: quick
//@   kind: bounded(x)
//@   fn: end
//@   domain: d
//@   post: p
end_harness!(x13_end_all_written, record = &RECORD_ANC, cur = 3, |_b2| Vec::new(), expect = |_b2| Some(([0, 0], 0)));

//@ harness: x13_end_union_null_omitted_last
//@   props: XDEV
//@   tier: quick
//@   kind: bounded(x)
//@   fn: end
//@   domain: d
//@   post: p
end_harness!(x13_end_union_null_omitted_last, record = &RECORD_AB, cur = 1, |_b2| Vec::new(), expect = |_b2| Some(([2, 0], 1)));
