// Verus unit (lemma only, no extracted code): lifts the ONE-STEP contracts of the record serializer
// (Kani, unit record_steps: serialize_record_value proved from every well-formed state shape of a
// 3-field record; the name -> index step field_idx is assumed, A2: it yields an index >= current_idx
// or Err for a field that was already written) to the statement of C13 for records of ANY size:
//   * every presentation order that presents each field exactly once is accepted and produces the
//     fields in SCHEMA order (lemma_any_order_gives_schema_order);
//   * a presentation that presents some field a second time is rejected at that point
//     (lemma_duplicate_is_rejected).
//
// The step contract, abstracted to field indices (what each field's bytes are is the per-kind encoder
// contract, C02; that a buffered field's bytes are flushed unchanged is a Kani obligation of the step):
//   present i == current_idx : field i is written, then every CONTIGUOUS buffered successor
//                              i+1, i+2, .. in schema order; current_idx moves past them; they leave the buffer
//   present i >  current_idx : i already buffered -> Err; otherwise i is buffered, nothing is written
//   present i <  current_idx : Err (field_idx: the field was already written)            [assumed, A2]
// Omitted fields (end() filling nullable fields) are NOT part of this lemma: end()'s Ok path is not
// discharged on the real code.
use vstd::prelude::*;
verus! {

pub struct St {
    pub cur: nat,        // current_idx: next schema field to hit the output
    pub buf: Set<nat>,   // indices whose serialization waits in a side buffer
    pub out: Seq<nat>,   // field indices in the order their bytes reached the output
}

pub open spec fn iota(k: nat) -> Seq<nat> {
    Seq::new(k, |i: int| i as nat)
}

pub open spec fn range(a: nat, b: nat) -> Seq<nat>
    recommends a <= b,
{
    Seq::new((b - a) as nat, |i: int| (a + i) as nat)
}

/// first index >= k that is not buffered (capped at n): where the flush loop stops
pub open spec fn flush_to(buf: Set<nat>, k: nat, n: nat) -> nat
    decreases n - k,
{
    if k < n && buf.contains(k) { flush_to(buf, k + 1, n) } else { k }
}

/// the step contract (see header)
pub open spec fn present(s: St, i: nat, n: nat) -> Option<St> {
    if i < s.cur {
        None
    } else if i == s.cur {
        let next = flush_to(s.buf, s.cur + 1, n);
        Some(St { cur: next, buf: s.buf.filter(|j: nat| j >= next), out: s.out + range(s.cur, next) })
    } else if s.buf.contains(i) {
        None
    } else {
        Some(St { cur: s.cur, buf: s.buf.insert(i), out: s.out })
    }
}

pub open spec fn run(s: St, pres: Seq<nat>, n: nat) -> Option<St>
    decreases pres.len(),
{
    if pres.len() == 0 {
        Some(s)
    } else {
        match present(s, pres[0], n) {
            None => None,
            Some(s1) => run(s1, pres.drop_first(), n),
        }
    }
}

pub open spec fn init() -> St {
    St { cur: 0, buf: Set::empty(), out: Seq::empty() }
}

/// the record serializer's invariant INV (asserted after every Kani step harness) plus its ghost
/// reading: P is the set of fields presented so far
pub open spec fn rel(s: St, p: Set<nat>, n: nat) -> bool {
    &&& s.cur <= n
    &&& forall|j: nat| s.buf.contains(j) ==> s.cur < j && j < n
    &&& s.out =~= iota(s.cur)
    &&& forall|k: nat| p.contains(k) <==> (k < n && (k < s.cur || s.buf.contains(k)))
}

proof fn lemma_flush_to(buf: Set<nat>, k: nat, n: nat)
    requires k <= n,
    ensures
        k <= flush_to(buf, k, n) <= n,
        forall|j: nat| k <= j < flush_to(buf, k, n) ==> buf.contains(j),
        flush_to(buf, k, n) == n || !buf.contains(flush_to(buf, k, n)),
    decreases n - k,
{
    if k < n && buf.contains(k) {
        lemma_flush_to(buf, k + 1, n);
    }
}

/// one step from a related state with a FRESH field re-establishes the relation
proof fn lemma_step_fresh(s: St, p: Set<nat>, i: nat, n: nat)
    requires rel(s, p, n), i < n, !p.contains(i),
    ensures
        present(s, i, n).is_some(),
        rel(present(s, i, n).unwrap(), p.insert(i), n),
{
    // a fresh field is neither written nor buffered
    assert(i >= s.cur);
    assert(!s.buf.contains(i));
    if i == s.cur {
        let next = flush_to(s.buf, s.cur + 1, n);
        lemma_flush_to(s.buf, s.cur + 1, n);
        let s1 = present(s, i, n).unwrap();
        assert(s1.cur == next);
        assert(s1.out =~= iota(next)) by {
            assert(s.out + range(s.cur, next) =~= iota(next));
        }
        assert forall|j: nat| s1.buf.contains(j) implies next < j && j < n by {
            assert(s.buf.contains(j) && j >= next);
        }
        let p1 = p.insert(i);
        assert forall|k: nat| p1.contains(k) <==> (k < n && (k < s1.cur || s1.buf.contains(k))) by {
            if k < n {
                if k < s.cur {
                    assert(p.contains(k));
                } else if k == s.cur {
                } else if k < next {
                    assert(s.buf.contains(k));
                    assert(p.contains(k));
                } else {
                    assert(s1.buf.contains(k) <==> s.buf.contains(k));
                    assert(p.contains(k) <==> s.buf.contains(k));
                }
            } else {
                assert(!p.contains(k));
                assert(!s.buf.contains(k));
            }
        }
    } else {
        let s1 = present(s, i, n).unwrap();
        let p1 = p.insert(i);
        assert forall|k: nat| p1.contains(k) <==> (k < n && (k < s1.cur || s1.buf.contains(k))) by {
            if k == i {
            } else {
                assert(s1.buf.contains(k) <==> s.buf.contains(k));
                assert(p1.contains(k) <==> p.contains(k));
            }
        }
    }
}

/// a field that was already presented is rejected (buffered: the step's own check; written: field_idx)
proof fn lemma_step_duplicate(s: St, p: Set<nat>, i: nat, n: nat)
    requires rel(s, p, n), p.contains(i),
    ensures present(s, i, n).is_none(),
{
    assert(i < s.cur || s.buf.contains(i));
    if s.buf.contains(i) {
        assert(s.cur < i);
    }
}

pub open spec fn distinct(pres: Seq<nat>) -> bool {
    forall|a: int, b: int| 0 <= a < b < pres.len() ==> pres[a] != pres[b]
}

pub open spec fn elems(pres: Seq<nat>) -> Set<nat> {
    pres.to_set()
}

/// running a duplicate-free list of fresh fields keeps the relation, with P growing by those fields
proof fn lemma_run_fresh(s: St, p: Set<nat>, pres: Seq<nat>, n: nat)
    requires
        rel(s, p, n),
        distinct(pres),
        forall|a: int| 0 <= a < pres.len() ==> pres[a] < n && !p.contains(pres[a]),
    ensures
        run(s, pres, n).is_some(),
        rel(run(s, pres, n).unwrap(), p.union(elems(pres)), n),
    decreases pres.len(),
{
    if pres.len() == 0 {
        assert(p.union(elems(pres)) =~= p);
    } else {
        let i = pres[0];
        lemma_step_fresh(s, p, i, n);
        let s1 = present(s, i, n).unwrap();
        let rest = pres.drop_first();
        assert forall|a: int| 0 <= a < rest.len() implies rest[a] < n && !p.insert(i).contains(rest[a]) by {
            assert(rest[a] == pres[a + 1]);
            assert(pres[0] != pres[a + 1]);
        }
        assert(distinct(rest)) by {
            assert forall|a: int, b: int| 0 <= a < b < rest.len() implies rest[a] != rest[b] by {
                assert(rest[a] == pres[a + 1] && rest[b] == pres[b + 1]);
            }
        }
        lemma_run_fresh(s1, p.insert(i), rest, n);
        assert(p.insert(i).union(elems(rest)) =~= p.union(elems(pres))) by {
            assert forall|k: nat| p.insert(i).union(elems(rest)).contains(k) <==> p.union(elems(pres)).contains(k) by {
                if rest.contains(k) {
                    let a = choose|a: int| 0 <= a < rest.len() && rest[a] == k;
                    assert(pres[a + 1] == k);
                    assert(pres.contains(k));
                }
                if pres.contains(k) {
                    let a = choose|a: int| 0 <= a < pres.len() && pres[a] == k;
                    if a > 0 {
                        assert(rest[a - 1] == k);
                        assert(rest.contains(k));
                    }
                }
            }
        }
    }
}

/// MAIN LEMMA (C13, order independence): whatever the order in which the n fields are presented - each
/// exactly once - the serializer accepts every one of them and the output is the fields in schema order,
/// with nothing left in the side buffers.
pub proof fn lemma_any_order_gives_schema_order(pres: Seq<nat>, n: nat)
    requires
        distinct(pres),
        forall|a: int| 0 <= a < pres.len() ==> pres[a] < n,
        forall|k: nat| k < n ==> pres.contains(k),
    ensures
        run(init(), pres, n).is_some(),
        run(init(), pres, n).unwrap().out =~= iota(n),
        run(init(), pres, n).unwrap().cur == n,
        run(init(), pres, n).unwrap().buf =~= Set::<nat>::empty(),
{
    let p0 = Set::<nat>::empty();
    assert(rel(init(), p0, n));
    lemma_run_fresh(init(), p0, pres, n);
    let s = run(init(), pres, n).unwrap();
    let p = p0.union(elems(pres));
    // every field was presented, so none can still be awaited
    if s.cur < n {
        let k = s.cur;
        assert(pres.contains(k));
        assert(elems(pres).contains(k));
        assert(p.contains(k));
        assert(k < s.cur || s.buf.contains(k));
        assert(false);
    }
    assert forall|j: nat| !s.buf.contains(j) by {
        if s.buf.contains(j) {
            assert(s.cur < j && j < n);
        }
    }
}

/// a presentation whose duplicate-free prefix `a` is followed by a field already in `a` is rejected
pub proof fn lemma_duplicate_is_rejected(a: Seq<nat>, i: nat, b: Seq<nat>, n: nat)
    requires
        distinct(a),
        forall|x: int| 0 <= x < a.len() ==> a[x] < n,
        a.contains(i),
    ensures
        run(init(), a + seq![i] + b, n).is_none(),
{
    let p0 = Set::<nat>::empty();
    assert(rel(init(), p0, n));
    lemma_run_fresh(init(), p0, a, n);
    let s = run(init(), a, n).unwrap();
    let p = p0.union(elems(a));
    assert(elems(a).contains(i));
    lemma_step_duplicate(s, p, i, n);
    lemma_run_concat_none(init(), a, i, b, n);
}

/// run over a ++ [i] ++ b fails when the step on i after a fails
proof fn lemma_run_concat_none(s: St, a: Seq<nat>, i: nat, b: Seq<nat>, n: nat)
    requires
        run(s, a, n).is_some(),
        present(run(s, a, n).unwrap(), i, n).is_none(),
    ensures
        run(s, a + seq![i] + b, n).is_none(),
    decreases a.len(),
{
    let all = a + seq![i] + b;
    if a.len() == 0 {
        assert(all[0] == i);
    } else {
        assert(all[0] == a[0]);
        assert(all.drop_first() =~= a.drop_first() + seq![i] + b);
        let s1 = present(s, a[0], n).unwrap();
        lemma_run_concat_none(s1, a.drop_first(), i, b, n);
    }
}

} // verus!
