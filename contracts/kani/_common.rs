// ---- shared harness helpers (inlined into contract modules that `//@ include: common`)

/// Assumption A4: error-message formatting is cut; no contract mentions a message.
fn stub_format(_args: core::fmt::Arguments<'_>) -> std::string::String {
	std::string::String::new()
}
fn stub_fmt_write(_out: &mut dyn core::fmt::Write, _args: core::fmt::Arguments<'_>) -> core::fmt::Result {
	Ok(())
}

/// Assumed contract on std::io::copy (A1b): "reads from reader until EOF, writing everything to
/// writer, returns the number of bytes copied".  std's implementation goes through an 8 KiB
/// stack buffer that is zero-initialised in a loop (8192 unwindings per call) and Linux
/// `kernel_copy` specialisations; the model is the same read/write loop with an 8-byte buffer.
fn model_io_copy<R: ?Sized + std::io::Read, W: ?Sized + std::io::Write>(
	reader: &mut R,
	writer: &mut W,
) -> std::io::Result<u64> {
	let mut total: u64 = 0;
	let mut buf = [0u8; 8];
	loop {
		let n = match reader.read(&mut buf) {
			Ok(n) => n,
			Err(e) => return Err(e),
		};
		if n == 0 {
			break;
		}
		if let Err(e) = writer.write_all(&buf[..n]) {
			return Err(e);
		}
		total += n as u64;
	}
	Ok(total)
}

/// Model of std::panic::catch_unwind under Kani (panic = abort, so there is nothing to catch):
/// runs the closure.  Needed because Kani 0.68 hits an internal compiler error on the
/// `catch_unwind` intrinsic as soon as `<Writer as Drop>::drop` is reachable.
use std::panic as stdpanic; // alias: Kani resolves `std::panic` in a stub path to the macro
fn model_catch_unwind<F: FnOnce() -> R + std::panic::UnwindSafe, R>(f: F) -> std::thread::Result<R> {
	Ok(f())
}

/// A fixed-capacity byte sink (cheaper for CBMC than Vec<u8>); records everything written.
struct ArrSink<const N: usize> {
	buf: [u8; N],
	len: usize,
	overflowed: bool,
}
impl<const N: usize> ArrSink<N> {
	fn new() -> Self {
		Self { buf: [0u8; N], len: 0, overflowed: false }
	}
	fn bytes(&self) -> &[u8] {
		&self.buf[..self.len]
	}
}
impl<const N: usize> std::io::Write for ArrSink<N> {
	fn write(&mut self, data: &[u8]) -> std::io::Result<usize> {
		let mut i = 0;
		while i < data.len() {
			if self.len < N {
				self.buf[self.len] = data[i];
				self.len += 1;
			} else {
				self.overflowed = true;
			}
			i += 1;
		}
		Ok(data.len())
	}
	fn flush(&mut self) -> std::io::Result<()> {
		Ok(())
	}
}

/// BufRead test double.  `irregular`: every `fill_buf` that finds the previous chunk exhausted
/// exposes a *nondeterministic* non-empty prefix of what is left => all partitions of the stream
/// into refills are explored.  `regular(k)`: refills of a fixed (symbolic) size k, i.e. a reader
/// with internal buffer capacity k.
struct Chunked<'a> {
	data: &'a [u8],
	pos: usize,
	chunk_end: usize,
	fixed: usize, // 0 = irregular
}
impl<'a> Chunked<'a> {
	fn irregular(data: &'a [u8]) -> Self {
		Self { data, pos: 0, chunk_end: 0, fixed: 0 }
	}
	fn regular(data: &'a [u8], k: usize) -> Self {
		assert!(k >= 1);
		Self { data, pos: 0, chunk_end: 0, fixed: k }
	}
	fn consumed(&self) -> usize {
		self.pos
	}
}
impl<'a> Chunked<'a> {
	/// choose the next chunk when the previous one is exhausted (infallible: keeping `io::Error`
	/// paths out of the double keeps std's `default_read_exact` error arm unreachable for CBMC)
	fn refill(&mut self) {
		if self.pos >= self.chunk_end && self.pos < self.data.len() {
			let left = self.data.len() - self.pos;
			let k: usize = if self.fixed != 0 {
				if self.fixed < left { self.fixed } else { left }
			} else {
				let k: usize = kani::any();
				kani::assume(k >= 1 && k <= left);
				k
			};
			self.chunk_end = self.pos + k;
		}
	}
}
impl<'a> std::io::Read for Chunked<'a> {
	fn read(&mut self, out: &mut [u8]) -> std::io::Result<usize> {
		self.refill();
		let avail = self.chunk_end - self.pos;
		let n = if avail < out.len() { avail } else { out.len() };
		let mut i = 0;
		while i < n {
			out[i] = self.data[self.pos + i];
			i += 1;
		}
		self.pos += n;
		Ok(n)
	}
}
impl<'a> std::io::BufRead for Chunked<'a> {
	fn fill_buf(&mut self) -> std::io::Result<&[u8]> {
		self.refill();
		Ok(&self.data[self.pos..self.chunk_end])
	}
	fn consume(&mut self, amt: usize) {
		self.pos += amt;
		assert!(self.pos <= self.chunk_end, "consume past the exposed chunk");
	}
}
