// NOT LOADED: harnesses removed from unit record_steps under the fallback rule (solver exceeds 24 GB): the Ok paths of
// end() (omitted nullable field -> null, buffered successors flushed) and the explicit Drop harness. Listed under not_decided for C13/C14.

//@ harness: c13_end_all_written
//@   props: C99
//@   tier: quick
//@   kind: bounded(record {a: long, b: null, c: long}; state: all three fields written)
//@   fn: ser::serializer::struct_or_map::SerializeStructAsRecordOrMapOrDuration::end (Kind::Record) + KindRecord::drop
//@   domain: the stated state shape
//@   post: Ok, nothing more is written; pooled buffers empty
end_harness!(c13_end_all_written, record = &RECORD_ANC, cur = 3, |_b2| Vec::new(), expect = |_b2| Some(([0, 0], 0)));

//@ harness: c13_end_null_field_omitted_successor_buffered
//@   props: C99
//@   tier: quick
//@   kind: bounded(record {a: long, b: null, c: long}; state: a written, b omitted, c presented early and buffered)
//@   fn: ser::serializer::struct_or_map::SerializeStructAsRecordOrMapOrDuration::end (Kind::Record) + KindRecord::drop
//@   domain: the stated state shape, buffered byte symbolic
//@   post: Ok; the always-null field contributes no bytes, then the buffered c follows; its buffer goes back to the pool empty
end_harness!(c13_end_null_field_omitted_successor_buffered, record = &RECORD_ANC, cur = 1, |b2| vec![None, None, Some(vec![b2])], expect = |b2| Some(([b2, 0], 1)));

//@ harness: c13_end_union_null_not_first_omitted
//@   props: C99
//@   tier: quick
//@   kind: bounded(record {a: long, b: ["long","null"], c: long}; state: a written, b omitted, c buffered)
//@   fn: ser::serializer::struct_or_map::SerializeStructAsRecordOrMapOrDuration::end (Kind::Record): omitted field whose schema is a union containing null
//@   domain: the stated state shape, buffered byte symbolic
//@   post: Ok; the omitted field is encoded as the union's NULL branch - discriminant 1 here (byte 02), not a literal zero - then the buffered c follows
end_harness!(c13_end_union_null_not_first_omitted, record = &RECORD_ABC, cur = 1, |b2| vec![None, None, Some(vec![b2])], expect = |b2| Some(([2, b2], 2)));

//@ harness: c14_drop_returns_pending_buffers_empty
//@   props: C99
//@   tier: quick
//@   kind: bounded(record state with two pending field buffers of one symbolic byte each, dropped without end() - the error path of a failed serialization)
//@   fn: ser::serializer::struct_or_map::<KindRecord as Drop>::drop
//@   domain: the stated state shape; pool initially empty or holding one recycled buffer
//@   post: every buffer handed back to the configuration's pools is EMPTY (both the per-field buffers and the buffer-of-buffers), so that the `assert!(v.is_empty())` on the next pop cannot fire and stale bytes cannot leak into the next record
#[kani::proof]
#[kani::unwind(5)]
#[kani::stub(alloc::fmt::format, stub_format)]
fn c14_drop_returns_pending_buffers_empty() {
	let record = record_of(&RECORD_LLL);
	let mut config = ManuallyDrop::new(SerializerConfig::new_with_optional_schema(None));
	if kani::any() {
		config.buffers.field_reordering_buffers.push(Vec::with_capacity(4));
	}
	let mut state = ManuallyDrop::new(SerializerState::from_writer(Vec::new(), &mut config));
	let b1: u8 = kani::any();
	let b2: u8 = kani::any();
	{
		let k = KindRecord {
			serializer_state: &mut state,
			record_state: RecordState {
				expected_fields: record.fields.iter(),
				current_idx: 0,
				buffers: vec![None, Some(vec![b1]), Some(vec![b2])],
				record,
			},
		};
		drop(k);
	}
	let cfg: &SerializerConfig<'_> = &state.config;
	assert!(cfg.buffers.field_reordering_buffers.len() >= 2, "OBL C14.drop.pending_buffers_are_recycled");
	assert!(pool_wf(cfg), "OBL C14.pool.every_pooled_buffer_is_empty_after_drop");
	assert!(state.writer.is_empty(), "OBL C14.drop.nothing_is_written_by_drop");
}

