//@ unit: single_object
//@ inject-into: serde_avro_fast/src/single_object_encoding.rs
//@ requires-unit: schema_helper
//@ anchor: serde_avro_fast/src/single_object_encoding.rs :: fn check_header\(slice: &\[u8; 10\], schema: &Schema\)
//@ anchor: serde_avro_fast/src/single_object_encoding.rs :: pub fn from_single_object_slice<'a, T>
//@ anchor: serde_avro_fast/src/single_object_encoding.rs :: pub fn from_single_object_reader<R, T>
//@ anchor: serde_avro_fast/src/single_object_encoding.rs :: pub fn to_single_object<T, W>
//@ include: spec
//@ include: common

use crate::schema::self_referential::{__verif_schema_helper::{mk_schema_static, NODES_LONG}, SchemaNode};

//@ harness: c18_check_header
//@   props: C18
//@   tier: quick
//@   kind: complete
//@   fn: single_object_encoding::check_header
//@   domain: all 2^80 headers x all 2^64 schema fingerprints
//@   post: Ok <=> header[0..2] == C3 01 and header[2..10] == schema fingerprint
#[kani::proof]
#[kani::unwind(12)]
#[kani::stub(alloc::fmt::format, stub_format)]
fn c18_check_header() {
	let fp: [u8; 8] = kani::any();
	let h: [u8; 10] = kani::any();
	let schema = mk_schema_static(&NODES_LONG, fp);
	let r = check_header(&h, &schema);
	let mut fp_eq = true;
	let mut i = 0;
	while i < 8 {
		if h[2 + i] != fp[i] {
			fp_eq = false;
		}
		i += 1;
	}
	let expect_ok = h[0] == 0xC3 && h[1] == 0x01 && fp_eq;
	kani::cover!(expect_ok, "COV header accepted");
	kani::cover!(h[0] == 0xC3 && h[1] == 0x01 && !fp_eq, "COV fingerprint mismatch");
	assert!(r.is_ok() == expect_ok, "OBL C18.check_header.ok_iff_marker_and_fingerprint");
}

//@ harness: c18_from_slice
//@   props: C18
//@   tier: quick
//@   kind: complete
//@   fn: single_object_encoding::from_single_object_slice
//@   domain: node `long`; every input of length 0..=21 (every truncation of the header; every header; every varint body)
//@   post: len < 10 => Err; bad marker/fingerprint => Err; otherwise result == from_datum_slice(&input[10..]) == spec_dec_long
#[kani::proof]
#[kani::unwind(13)]
#[kani::stub(alloc::fmt::format, stub_format)]
fn c18_from_slice() {
	let fp: [u8; 8] = kani::any();
	let buf: [u8; 21] = kani::any();
	let len: usize = kani::any();
	kani::assume(len <= 21);
	let input = &buf[..len];
	let schema = mk_schema_static(&NODES_LONG, fp);
	let r: Result<i64, _> = from_single_object_slice(input, &schema);
	if len < 10 {
		kani::cover!(len == 9, "COV truncated header");
		assert!(r.is_err(), "OBL C18.from_slice.short_input_is_err");
	} else {
		let mut hdr_ok = buf[0] == 0xC3 && buf[1] == 0x01;
		let mut i = 0;
		while i < 8 {
			if buf[2 + i] != fp[i] {
				hdr_ok = false;
			}
			i += 1;
		}
		if !hdr_ok {
			assert!(r.is_err(), "OBL C18.from_slice.bad_header_is_err");
		} else {
			match spec_dec_long(&input[10..]) {
				Some((v, _n)) => {
					kani::cover!(v == i64::MIN, "COV decodes i64::MIN");
					assert!(matches!(r, Ok(x) if x == v), "OBL C18.from_slice.decodes_datum_after_header");
				}
				None => assert!(r.is_err(), "OBL C18.from_slice.bad_datum_is_err"),
			}
		}
	}
}

//@ harness: c18_from_reader_hdr
//@   props: C18, C11
//@   tier: quick
//@   kind: complete
//@   fn: single_object_encoding::from_single_object_reader
//@   domain: node `long`; every input of length 0..=11 (header + one-byte datum) delivered through refills of every fixed size k in 1..=11
//@   post: same outcome (value or Err) as from_single_object_slice on the same bytes
#[kani::proof]
#[kani::unwind(15)]
#[kani::stub(alloc::fmt::format, stub_format)]
fn c18_from_reader_hdr() {
	let fp: [u8; 8] = kani::any();
	let buf: [u8; 11] = kani::any();
	let len: usize = kani::any();
	kani::assume(len <= 11);
	let input = &buf[..len];
	let schema = mk_schema_static(&NODES_LONG, fp);
	let a: Result<i64, _> = from_single_object_slice(input, &schema);
	let k: usize = kani::any();
	kani::assume(k >= 1 && k <= 11);
	let b: Result<i64, _> = from_single_object_reader(Chunked::regular(input, k), &schema);
	kani::cover!(a.is_ok(), "COV ok path");
	kani::cover!(a.is_err() && len >= 10, "COV err path with full header");
	match (a, b) {
		(Ok(x), Ok(y)) => assert!(x == y, "OBL C18.from_reader.same_value_as_slice"),
		(Err(_), Err(_)) => {}
		_ => assert!(false, "OBL C18.from_reader.same_outcome_as_slice"),
	}
}

//@ harness: c18_from_reader
//@   props: C18, C11
//@   tier: thorough
//@   kind: complete
//@   fn: single_object_encoding::from_single_object_reader
//@   domain: node `long`; every input of length 0..=13 delivered through refills of every fixed size k in 1..=13
//@   post: same outcome (value or Err) as from_single_object_slice on the same bytes
#[kani::proof]
#[kani::unwind(15)]
#[kani::stub(alloc::fmt::format, stub_format)]
fn c18_from_reader() {
	let fp: [u8; 8] = kani::any();
	let buf: [u8; 13] = kani::any();
	let len: usize = kani::any();
	kani::assume(len <= 13);
	let input = &buf[..len];
	let schema = mk_schema_static(&NODES_LONG, fp);
	let a: Result<i64, _> = from_single_object_slice(input, &schema);
	let k: usize = kani::any();
	kani::assume(k >= 1 && k <= 13);
	let b: Result<i64, _> = from_single_object_reader(Chunked::regular(input, k), &schema);
	kani::cover!(a.is_ok(), "COV ok path");
	kani::cover!(a.is_err() && len >= 10, "COV err path with full header");
	match (a, b) {
		(Ok(x), Ok(y)) => assert!(x == y, "OBL C18.from_reader.same_value_as_slice"),
		(Err(_), Err(_)) => {}
		_ => assert!(false, "OBL C18.from_reader.same_outcome_as_slice"),
	}
}

//@ harness: c18_to_single_object
//@   props: C18
//@   tier: quick
//@   kind: complete
//@   fn: single_object_encoding::to_single_object
//@   domain: node `long`, every i64 value, every fingerprint
//@   post: output == C3 01 ++ fingerprint ++ spec_enc_long(v), and nothing else
#[kani::proof]
#[kani::unwind(13)]
#[kani::stub(alloc::fmt::format, stub_format)]
fn c18_to_single_object() {
	let fp: [u8; 8] = kani::any();
	let v: i64 = kani::any();
	let schema = mk_schema_static(&NODES_LONG, fp);
	let mut config = crate::ser::SerializerConfig::new(&schema);
	let out = to_single_object(&v, Vec::new(), &mut config);
	let out = match out {
		Ok(o) => o,
		Err(_) => {
			assert!(false, "OBL C18.to_single_object.succeeds_for_conforming_value");
			return;
		}
	};
	let (e, n) = spec_enc_long(v);
	assert!(out.len() == 10 + n, "OBL C18.to_single_object.length");
	assert!(out[0] == 0xC3 && out[1] == 0x01, "OBL C18.to_single_object.marker");
	assert!(out[2..10] == fp, "OBL C18.to_single_object.fingerprint_bytes_of_schema");
	assert!(out[10..] == e[..n], "OBL C18.to_single_object.datum_follows_header");
}

//@ harness: c18_canary
//@   props: C18
//@   tier: quick
//@   kind: canary
#[kani::proof]
#[kani::unwind(12)]
#[kani::stub(alloc::fmt::format, stub_format)]
fn c18_canary() {
	let fp: [u8; 8] = kani::any();
	let h: [u8; 10] = kani::any();
	let schema = mk_schema_static(&NODES_LONG, fp);
	assert!(check_header(&h, &schema).is_err(), "OBL canary");
}
