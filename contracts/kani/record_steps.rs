//@ unit: record_steps
//@ inject-into: serde_avro_fast/src/ser/serializer/struct_or_map.rs
//@ requires-unit: schema_helper
//@ requires-unit: ser_cells
//@ anchor: serde_avro_fast/src/ser/serializer/struct_or_map.rs :: fn serialize_record_value<'r, 'c, 's, W: Write, T: \?Sized>\(
//@ anchor: serde_avro_fast/src/ser/serializer/struct_or_map.rs :: impl<'r, 'c, 's, W> Drop for KindRecord<'r, 'c, 's, W> \{
//@ include: spec
//@ include: common

// ---------------------------------------------------------------------------------------------
// C13 / C14: inductive ONE-STEP contract of the record serializer's core, `serialize_record_value`,
// from EVERY well-formed state shape of a 3-field record, each built in place (a struct literal in the
// harness body: CBMC must see the state's shape).  record R3 { a: long, b: long, c: long } for the value
// steps; R2 { a: long, b: null, c: long } and R { a: long, b: ["long","null"], c: long } for end().
//
// Ghost reading of RecordState: fields [0, current_idx) are already in the output; buffers[i] =
// Some(bytes) for i > current_idx means field i was presented early and waits; buffers[current_idx]
// is never Some (it would have been flushed).  Invariant INV:
//    current_idx <= n, expected_fields == fields[current_idx..], buffers[i].is_none() for i <= current_idx.
// The name -> index step (`field_idx`) is HashMap-based and NOT part of this contract (A2): the
// step takes the index it yields.
// ---------------------------------------------------------------------------------------------

use crate::schema::self_referential::__verif_schema_helper::{record_of, N_LONG, N_NULL, RECORD_ABC, RECORD_ANC, RECORD_LLL};
use crate::ser::__verif_ser_cells::*;
use std::mem::ManuallyDrop;

fn pool_wf(cfg: &SerializerConfig<'_>) -> bool {
	let mut ok = true;
	let mut i = 0;
	while i < cfg.buffers.field_reordering_buffers.len() {
		if !cfg.buffers.field_reordering_buffers[i].is_empty() {
			ok = false;
		}
		i += 1;
	}
	let mut i = 0;
	while i < cfg.buffers.field_reordering_super_buffers.len() {
		if !cfg.buffers.field_reordering_super_buffers[i].is_empty() {
			ok = false;
		}
		i += 1;
	}
	ok
}

macro_rules! step_harness {
	($name:ident, cur = $cur:expr, has = [$has1:expr, $has2:expr], idx = $idx:expr, $buffers:expr) => {
		#[kani::proof]
		#[kani::unwind(5)]
		#[kani::stub(alloc::fmt::format, stub_format)]
		#[kani::stub(DatumSerializer::serialize_union_unnamed, DatumSerializer::verif_unreachable_union_arm)]
		fn $name() {
			let record = record_of(&RECORD_LLL);
			let mut config = ManuallyDrop::new(SerializerConfig::new_with_optional_schema(None));
			// the pool is only popped from when a field is buffered (IDX > CUR); keep it empty otherwise
			let pool_has_buffer: bool = if $idx > $cur { kani::any() } else { false };
			if pool_has_buffer {
				config.buffers.field_reordering_buffers.push(Vec::with_capacity(4)); // a recycled (empty) buffer
			}
			let mut state = ManuallyDrop::new(SerializerState::from_writer(Vec::new(), &mut config));
			let b1: u8 = kani::any();
			let b2: u8 = kani::any();
			let mk: fn(u8, u8) -> Vec<Option<Vec<u8>>> = $buffers;
			const CUR: usize = $cur;
			let mut rs = ManuallyDrop::new(RecordState {
				expected_fields: record.fields[CUR..].iter(),
				current_idx: CUR,
				buffers: mk(b1, b2),
				record,
			});
			let v: i64 = kani::any();
			kani::assume(v >= -64 && v < 64);
			let e = spec_enc_long(v).0[0];
			const IDX: usize = $idx;
			let has: [bool; 3] = [false, $has1, $has2];
			let bytes: [u8; 3] = [0, b1, b2];
			let r = serialize_record_value(&mut state, &mut rs, IDX, &N_LONG, &v);
			let out = &state.writer;
			if IDX == CUR {
				assert!(r.is_ok(), "OBL C13.step.next_expected_field_is_accepted");
				// reference: the field, then every contiguous buffered successor, in schema order
				let mut want = [0u8; 3];
				let mut k = 0;
				want[k] = e;
				k += 1;
				let mut next = CUR + 1;
				while next < 3 && has[next] {
					want[k] = bytes[next];
					k += 1;
					next += 1;
				}
				assert!(out.len() == k && out[..] == want[..k], "OBL C13.step.field_then_contiguous_buffered_successors_in_schema_order");
				assert!(rs.current_idx == next, "OBL C13.step.current_idx_advances_past_flushed_fields");
				assert!(rs.expected_fields.as_slice().len() == 3 - next, "OBL C13.step.expected_fields_in_step_with_current_idx");
				// a buffered field that is not contiguous stays buffered, untouched
				let mut j = next + 1;
				while j < 3 {
					if has[j] {
						assert!(matches!(rs.buffers.get(j), Some(Some(b)) if b.len() == 1 && b[0] == bytes[j]), "OBL C13.step.non_contiguous_buffer_is_kept");
					}
					j += 1;
				}
				let mut j = 0;
				while j < next && j < rs.buffers.len() {
					assert!(rs.buffers[j].is_none(), "OBL C13.step.flushed_slots_are_emptied");
					j += 1;
				}
			} else if has[IDX] {
				assert!(r.is_err(), "OBL C13.step.field_presented_twice_is_err");
			} else {
				assert!(r.is_ok() && out.is_empty() && rs.current_idx == CUR, "OBL C13.step.early_field_is_buffered_not_written");
				assert!(matches!(rs.buffers.get(IDX), Some(Some(b)) if b.len() == 1 && b[0] == e), "OBL C13.step.buffer_holds_exactly_the_fields_encoding");
			}
			let cfg: &SerializerConfig<'_> = &state.config;
			assert!(pool_wf(cfg), "OBL C14.pool.every_pooled_buffer_is_empty_after_the_step");
			std::mem::forget(r);
		}
	};
}

//@ harness: c13_step_c0_b00_i0
//@   props: C13, C14
//@   tier: quick
//@   kind: bounded(3-field record; state shape: current_idx = 0, field 1 not buffered, field 2 not buffered; presented index 0 = the next expected field; buffered bytes, value (one-byte varint) and pool content (empty / one recycled buffer) symbolic)
//@   fn: ser::serializer::struct_or_map::serialize_record_value
//@   domain: one of the 17 well-formed (state shape, presented index) pairs of a 3-field record - together exhaustive
//@   post: next expected field: written, followed by every contiguous buffered successor in schema order, current_idx and expected_fields advanced in step, non-contiguous buffers kept, flushed buffers returned to the pool EMPTY; later field: buffered (nothing written) or Err if already buffered; every pooled buffer empty afterwards
step_harness!(c13_step_c0_b00_i0, cur = 0, has = [false, false], idx = 0, |_b1, _b2| Vec::new());

//@ harness: c13_step_c0_b00_i1
//@   props: C13, C14
//@   tier: quick
//@   kind: bounded(3-field record; state shape: current_idx = 0, field 1 not buffered, field 2 not buffered; presented index 1 = a later field (out of order); buffered bytes, value (one-byte varint) and pool content (empty / one recycled buffer) symbolic)
//@   fn: ser::serializer::struct_or_map::serialize_record_value
//@   domain: one of the 17 well-formed (state shape, presented index) pairs of a 3-field record - together exhaustive
//@   post: next expected field: written, followed by every contiguous buffered successor in schema order, current_idx and expected_fields advanced in step, non-contiguous buffers kept, flushed buffers returned to the pool EMPTY; later field: buffered (nothing written) or Err if already buffered; every pooled buffer empty afterwards
step_harness!(c13_step_c0_b00_i1, cur = 0, has = [false, false], idx = 1, |_b1, _b2| Vec::new());

//@ harness: c13_step_c0_b00_i2
//@   props: C13, C14
//@   tier: quick
//@   kind: bounded(3-field record; state shape: current_idx = 0, field 1 not buffered, field 2 not buffered; presented index 2 = a later field (out of order); buffered bytes, value (one-byte varint) and pool content (empty / one recycled buffer) symbolic)
//@   fn: ser::serializer::struct_or_map::serialize_record_value
//@   domain: one of the 17 well-formed (state shape, presented index) pairs of a 3-field record - together exhaustive
//@   post: next expected field: written, followed by every contiguous buffered successor in schema order, current_idx and expected_fields advanced in step, non-contiguous buffers kept, flushed buffers returned to the pool EMPTY; later field: buffered (nothing written) or Err if already buffered; every pooled buffer empty afterwards
step_harness!(c13_step_c0_b00_i2, cur = 0, has = [false, false], idx = 2, |_b1, _b2| Vec::new());

//@ harness: c13_step_c0_b01_i0
//@   props: C13, C14
//@   tier: quick
//@   kind: bounded(3-field record; state shape: current_idx = 0, field 1 not buffered, field 2 buffered; presented index 0 = the next expected field; buffered bytes, value (one-byte varint) and pool content (empty / one recycled buffer) symbolic)
//@   fn: ser::serializer::struct_or_map::serialize_record_value
//@   domain: one of the 17 well-formed (state shape, presented index) pairs of a 3-field record - together exhaustive
//@   post: next expected field: written, followed by every contiguous buffered successor in schema order, current_idx and expected_fields advanced in step, non-contiguous buffers kept, flushed buffers returned to the pool EMPTY; later field: buffered (nothing written) or Err if already buffered; every pooled buffer empty afterwards
step_harness!(c13_step_c0_b01_i0, cur = 0, has = [false, true], idx = 0, |_b1, b2| vec![None, None, Some(vec![b2])]);

//@ harness: c13_step_c0_b01_i1
//@   props: C13, C14
//@   tier: quick
//@   kind: bounded(3-field record; state shape: current_idx = 0, field 1 not buffered, field 2 buffered; presented index 1 = a later field (out of order); buffered bytes, value (one-byte varint) and pool content (empty / one recycled buffer) symbolic)
//@   fn: ser::serializer::struct_or_map::serialize_record_value
//@   domain: one of the 17 well-formed (state shape, presented index) pairs of a 3-field record - together exhaustive
//@   post: next expected field: written, followed by every contiguous buffered successor in schema order, current_idx and expected_fields advanced in step, non-contiguous buffers kept, flushed buffers returned to the pool EMPTY; later field: buffered (nothing written) or Err if already buffered; every pooled buffer empty afterwards
step_harness!(c13_step_c0_b01_i1, cur = 0, has = [false, true], idx = 1, |_b1, b2| vec![None, None, Some(vec![b2])]);

//@ harness: c13_step_c0_b01_i2
//@   props: C13, C14
//@   tier: quick
//@   kind: bounded(3-field record; state shape: current_idx = 0, field 1 not buffered, field 2 buffered; presented index 2 = an already buffered field (duplicate); buffered bytes, value (one-byte varint) and pool content (empty / one recycled buffer) symbolic)
//@   fn: ser::serializer::struct_or_map::serialize_record_value
//@   domain: one of the 17 well-formed (state shape, presented index) pairs of a 3-field record - together exhaustive
//@   post: next expected field: written, followed by every contiguous buffered successor in schema order, current_idx and expected_fields advanced in step, non-contiguous buffers kept, flushed buffers returned to the pool EMPTY; later field: buffered (nothing written) or Err if already buffered; every pooled buffer empty afterwards
step_harness!(c13_step_c0_b01_i2, cur = 0, has = [false, true], idx = 2, |_b1, b2| vec![None, None, Some(vec![b2])]);

//@ harness: c13_step_c0_b10_i0
//@   props: C13, C14
//@   tier: quick
//@   kind: bounded(3-field record; state shape: current_idx = 0, field 1 buffered, field 2 not buffered; presented index 0 = the next expected field; buffered bytes, value (one-byte varint) and pool content (empty / one recycled buffer) symbolic)
//@   fn: ser::serializer::struct_or_map::serialize_record_value
//@   domain: one of the 17 well-formed (state shape, presented index) pairs of a 3-field record - together exhaustive
//@   post: next expected field: written, followed by every contiguous buffered successor in schema order, current_idx and expected_fields advanced in step, non-contiguous buffers kept, flushed buffers returned to the pool EMPTY; later field: buffered (nothing written) or Err if already buffered; every pooled buffer empty afterwards
step_harness!(c13_step_c0_b10_i0, cur = 0, has = [true, false], idx = 0, |b1, _b2| vec![None, Some(vec![b1])]);

//@ harness: c13_step_c0_b10_i1
//@   props: C13, C14
//@   tier: quick
//@   kind: bounded(3-field record; state shape: current_idx = 0, field 1 buffered, field 2 not buffered; presented index 1 = an already buffered field (duplicate); buffered bytes, value (one-byte varint) and pool content (empty / one recycled buffer) symbolic)
//@   fn: ser::serializer::struct_or_map::serialize_record_value
//@   domain: one of the 17 well-formed (state shape, presented index) pairs of a 3-field record - together exhaustive
//@   post: next expected field: written, followed by every contiguous buffered successor in schema order, current_idx and expected_fields advanced in step, non-contiguous buffers kept, flushed buffers returned to the pool EMPTY; later field: buffered (nothing written) or Err if already buffered; every pooled buffer empty afterwards
step_harness!(c13_step_c0_b10_i1, cur = 0, has = [true, false], idx = 1, |b1, _b2| vec![None, Some(vec![b1])]);

//@ harness: c13_step_c0_b10_i2
//@   props: C13, C14
//@   tier: quick
//@   kind: bounded(3-field record; state shape: current_idx = 0, field 1 buffered, field 2 not buffered; presented index 2 = a later field (out of order); buffered bytes, value (one-byte varint) and pool content (empty / one recycled buffer) symbolic)
//@   fn: ser::serializer::struct_or_map::serialize_record_value
//@   domain: one of the 17 well-formed (state shape, presented index) pairs of a 3-field record - together exhaustive
//@   post: next expected field: written, followed by every contiguous buffered successor in schema order, current_idx and expected_fields advanced in step, non-contiguous buffers kept, flushed buffers returned to the pool EMPTY; later field: buffered (nothing written) or Err if already buffered; every pooled buffer empty afterwards
step_harness!(c13_step_c0_b10_i2, cur = 0, has = [true, false], idx = 2, |b1, _b2| vec![None, Some(vec![b1])]);

//@ harness: c13_step_c0_b11_i0
//@   props: C13, C14
//@   tier: quick
//@   kind: bounded(3-field record; state shape: current_idx = 0, field 1 buffered, field 2 buffered; presented index 0 = the next expected field; buffered bytes, value (one-byte varint) and pool content (empty / one recycled buffer) symbolic)
//@   fn: ser::serializer::struct_or_map::serialize_record_value
//@   domain: one of the 17 well-formed (state shape, presented index) pairs of a 3-field record - together exhaustive
//@   post: next expected field: written, followed by every contiguous buffered successor in schema order, current_idx and expected_fields advanced in step, non-contiguous buffers kept, flushed buffers returned to the pool EMPTY; later field: buffered (nothing written) or Err if already buffered; every pooled buffer empty afterwards
step_harness!(c13_step_c0_b11_i0, cur = 0, has = [true, true], idx = 0, |b1, b2| vec![None, Some(vec![b1]), Some(vec![b2])]);

//@ harness: c13_step_c0_b11_i1
//@   props: C13, C14
//@   tier: quick
//@   kind: bounded(3-field record; state shape: current_idx = 0, field 1 buffered, field 2 buffered; presented index 1 = an already buffered field (duplicate); buffered bytes, value (one-byte varint) and pool content (empty / one recycled buffer) symbolic)
//@   fn: ser::serializer::struct_or_map::serialize_record_value
//@   domain: one of the 17 well-formed (state shape, presented index) pairs of a 3-field record - together exhaustive
//@   post: next expected field: written, followed by every contiguous buffered successor in schema order, current_idx and expected_fields advanced in step, non-contiguous buffers kept, flushed buffers returned to the pool EMPTY; later field: buffered (nothing written) or Err if already buffered; every pooled buffer empty afterwards
step_harness!(c13_step_c0_b11_i1, cur = 0, has = [true, true], idx = 1, |b1, b2| vec![None, Some(vec![b1]), Some(vec![b2])]);

//@ harness: c13_step_c0_b11_i2
//@   props: C13, C14
//@   tier: quick
//@   kind: bounded(3-field record; state shape: current_idx = 0, field 1 buffered, field 2 buffered; presented index 2 = an already buffered field (duplicate); buffered bytes, value (one-byte varint) and pool content (empty / one recycled buffer) symbolic)
//@   fn: ser::serializer::struct_or_map::serialize_record_value
//@   domain: one of the 17 well-formed (state shape, presented index) pairs of a 3-field record - together exhaustive
//@   post: next expected field: written, followed by every contiguous buffered successor in schema order, current_idx and expected_fields advanced in step, non-contiguous buffers kept, flushed buffers returned to the pool EMPTY; later field: buffered (nothing written) or Err if already buffered; every pooled buffer empty afterwards
step_harness!(c13_step_c0_b11_i2, cur = 0, has = [true, true], idx = 2, |b1, b2| vec![None, Some(vec![b1]), Some(vec![b2])]);

//@ harness: c13_step_c1_b00_i1
//@   props: C13, C14
//@   tier: quick
//@   kind: bounded(3-field record; state shape: current_idx = 1, field 1 not buffered, field 2 not buffered; presented index 1 = the next expected field; buffered bytes, value (one-byte varint) and pool content (empty / one recycled buffer) symbolic)
//@   fn: ser::serializer::struct_or_map::serialize_record_value
//@   domain: one of the 17 well-formed (state shape, presented index) pairs of a 3-field record - together exhaustive
//@   post: next expected field: written, followed by every contiguous buffered successor in schema order, current_idx and expected_fields advanced in step, non-contiguous buffers kept, flushed buffers returned to the pool EMPTY; later field: buffered (nothing written) or Err if already buffered; every pooled buffer empty afterwards
step_harness!(c13_step_c1_b00_i1, cur = 1, has = [false, false], idx = 1, |_b1, _b2| Vec::new());

//@ harness: c13_step_c1_b00_i2
//@   props: C13, C14
//@   tier: quick
//@   kind: bounded(3-field record; state shape: current_idx = 1, field 1 not buffered, field 2 not buffered; presented index 2 = a later field (out of order); buffered bytes, value (one-byte varint) and pool content (empty / one recycled buffer) symbolic)
//@   fn: ser::serializer::struct_or_map::serialize_record_value
//@   domain: one of the 17 well-formed (state shape, presented index) pairs of a 3-field record - together exhaustive
//@   post: next expected field: written, followed by every contiguous buffered successor in schema order, current_idx and expected_fields advanced in step, non-contiguous buffers kept, flushed buffers returned to the pool EMPTY; later field: buffered (nothing written) or Err if already buffered; every pooled buffer empty afterwards
step_harness!(c13_step_c1_b00_i2, cur = 1, has = [false, false], idx = 2, |_b1, _b2| Vec::new());

//@ harness: c13_step_c1_b01_i1
//@   props: C13, C14
//@   tier: quick
//@   kind: bounded(3-field record; state shape: current_idx = 1, field 1 not buffered, field 2 buffered; presented index 1 = the next expected field; buffered bytes, value (one-byte varint) and pool content (empty / one recycled buffer) symbolic)
//@   fn: ser::serializer::struct_or_map::serialize_record_value
//@   domain: one of the 17 well-formed (state shape, presented index) pairs of a 3-field record - together exhaustive
//@   post: next expected field: written, followed by every contiguous buffered successor in schema order, current_idx and expected_fields advanced in step, non-contiguous buffers kept, flushed buffers returned to the pool EMPTY; later field: buffered (nothing written) or Err if already buffered; every pooled buffer empty afterwards
step_harness!(c13_step_c1_b01_i1, cur = 1, has = [false, true], idx = 1, |_b1, b2| vec![None, None, Some(vec![b2])]);

//@ harness: c13_step_c1_b01_i2
//@   props: C13, C14
//@   tier: quick
//@   kind: bounded(3-field record; state shape: current_idx = 1, field 1 not buffered, field 2 buffered; presented index 2 = an already buffered field (duplicate); buffered bytes, value (one-byte varint) and pool content (empty / one recycled buffer) symbolic)
//@   fn: ser::serializer::struct_or_map::serialize_record_value
//@   domain: one of the 17 well-formed (state shape, presented index) pairs of a 3-field record - together exhaustive
//@   post: next expected field: written, followed by every contiguous buffered successor in schema order, current_idx and expected_fields advanced in step, non-contiguous buffers kept, flushed buffers returned to the pool EMPTY; later field: buffered (nothing written) or Err if already buffered; every pooled buffer empty afterwards
step_harness!(c13_step_c1_b01_i2, cur = 1, has = [false, true], idx = 2, |_b1, b2| vec![None, None, Some(vec![b2])]);

//@ harness: c13_step_c2_b00_i2
//@   props: C13, C14
//@   tier: quick
//@   kind: bounded(3-field record; state shape: current_idx = 2, field 1 not buffered, field 2 not buffered; presented index 2 = the next expected field; buffered bytes, value (one-byte varint) and pool content (empty / one recycled buffer) symbolic)
//@   fn: ser::serializer::struct_or_map::serialize_record_value
//@   domain: one of the 17 well-formed (state shape, presented index) pairs of a 3-field record - together exhaustive
//@   post: next expected field: written, followed by every contiguous buffered successor in schema order, current_idx and expected_fields advanced in step, non-contiguous buffers kept, flushed buffers returned to the pool EMPTY; later field: buffered (nothing written) or Err if already buffered; every pooled buffer empty afterwards
step_harness!(c13_step_c2_b00_i2, cur = 2, has = [false, false], idx = 2, |_b1, _b2| Vec::new());

/// end() from a state shape, on record R2 { a: long, b: null, c: long } or R { a: long, b: ["long","null"], c: long }.
/// `$expect`: Some((bytes, n)) = Ok with exactly bytes[..n] written by end(); None = Err.
// ---- zero-length encodings: an early field whose encoding is EMPTY (null) must still be recorded as presented

//@ harness: c13_step_null_field_presented_early
//@   props: C13, C14
//@   tier: quick
//@   kind: bounded(record {a: long, b: null, c: long}; state: nothing written, nothing buffered; field b (null: EMPTY encoding) presented before a, then presented again)
//@   fn: ser::serializer::struct_or_map::serialize_record_value (early field whose encoding is zero bytes)
//@   domain: the stated state shape; pool empty or holding one recycled buffer
//@   post: the early field is recorded as presented although its encoding is empty (buffers[1] is Some(empty)), nothing is written; presenting it a second time is Err; pooled buffers empty
#[kani::proof]
#[kani::unwind(5)]
#[kani::stub(alloc::fmt::format, stub_format)]
#[kani::stub(DatumSerializer::serialize_union_unnamed, DatumSerializer::verif_unreachable_union_arm)]
fn c13_step_null_field_presented_early() {
	let record = record_of(&RECORD_ANC);
	let mut config = ManuallyDrop::new(SerializerConfig::new_with_optional_schema(None));
	if kani::any() {
		config.buffers.field_reordering_buffers.push(Vec::with_capacity(4));
	}
	let mut state = ManuallyDrop::new(SerializerState::from_writer(Vec::new(), &mut config));
	let mut rs = ManuallyDrop::new(RecordState {
		expected_fields: record.fields[0..].iter(),
		current_idx: 0,
		buffers: Vec::new(),
		record,
	});
	let r = serialize_record_value(&mut state, &mut rs, 1, &N_NULL, &());
	assert!(r.is_ok() && state.writer.is_empty() && rs.current_idx == 0, "OBL C13.step.early_field_is_buffered_not_written");
	assert!(matches!(rs.buffers.get(1), Some(Some(b)) if b.is_empty()), "OBL C13.step.early_field_with_empty_encoding_is_still_recorded_as_presented");
	std::mem::forget(r);
	// presenting it again is a duplicate
	let r2 = serialize_record_value(&mut state, &mut rs, 1, &N_NULL, &());
	assert!(r2.is_err(), "OBL C13.step.field_presented_twice_is_err");
	std::mem::forget(r2);
	let cfg: &SerializerConfig<'_> = &state.config;
	assert!(pool_wf(cfg), "OBL C14.pool.every_pooled_buffer_is_empty_after_the_step");
}

//@ harness: c13_step_flushes_empty_buffered_successor
//@   props: C13, C14
//@   tier: quick
//@   kind: bounded(record {a: long, b: null, c: long}; state: nothing written, b buffered with its EMPTY encoding; a presented)
//@   fn: ser::serializer::struct_or_map::serialize_record_value (flush of a contiguous successor whose buffer is empty)
//@   domain: the stated state shape, value of a symbolic (one-byte varint)
//@   post: a is written, the empty successor is flushed (current_idx = 2, expected_fields in step), its buffer goes back to the pool empty
#[kani::proof]
#[kani::unwind(5)]
#[kani::stub(alloc::fmt::format, stub_format)]
#[kani::stub(DatumSerializer::serialize_union_unnamed, DatumSerializer::verif_unreachable_union_arm)]
fn c13_step_flushes_empty_buffered_successor() {
	let record = record_of(&RECORD_ANC);
	let mut config = ManuallyDrop::new(SerializerConfig::new_with_optional_schema(None));
	let mut state = ManuallyDrop::new(SerializerState::from_writer(Vec::new(), &mut config));
	let mut rs = ManuallyDrop::new(RecordState {
		expected_fields: record.fields[0..].iter(),
		current_idx: 0,
		buffers: vec![None, Some(Vec::with_capacity(4)), None],
		record,
	});
	let v: i64 = kani::any();
	kani::assume(v >= -64 && v < 64);
	let e = spec_enc_long(v).0[0];
	let r = serialize_record_value(&mut state, &mut rs, 0, &N_LONG, &v);
	assert!(r.is_ok(), "OBL C13.step.next_expected_field_is_accepted");
	assert!(state.writer.len() == 1 && state.writer[0] == e, "OBL C13.step.field_then_contiguous_buffered_successors_in_schema_order");
	assert!(rs.current_idx == 2, "OBL C13.step.current_idx_advances_past_flushed_fields");
	assert!(rs.expected_fields.as_slice().len() == 1, "OBL C13.step.expected_fields_in_step_with_current_idx");
	std::mem::forget(r);
	let cfg: &SerializerConfig<'_> = &state.config;
	assert!(pool_wf(cfg), "OBL C14.pool.every_pooled_buffer_is_empty_after_the_step");
}

macro_rules! end_harness {
	($name:ident, record = $rec:expr, cur = $cur:expr, $buffers:expr, expect = $expect:expr) => {
		#[kani::proof]
		#[kani::unwind(4)]
		#[kani::stub(alloc::fmt::format, stub_format)]
		#[kani::stub(core::fmt::write, stub_fmt_write)]
		fn $name() {
			let record = record_of($rec);
			let mut config = ManuallyDrop::new(SerializerConfig::new_with_optional_schema(None));
			let mut state = ManuallyDrop::new(SerializerState::from_writer(Vec::new(), &mut config));
			let b2: u8 = kani::any();
			let mk: fn(u8) -> Vec<Option<Vec<u8>>> = $buffers;
			const CUR: usize = $cur;
			let r = {
				let s = SerializeStructAsRecordOrMapOrDuration {
					kind: Kind::Record(KindRecord {
						serializer_state: &mut state,
						record_state: RecordState {
							expected_fields: record.fields[CUR..].iter(),
							current_idx: CUR,
							buffers: mk(b2),
							record,
						},
					}),
				};
				s.end() // consumes the serializer: KindRecord::drop runs here too
			};
			let out = &state.writer;
			let ex: fn(u8) -> Option<([u8; 2], usize)> = $expect;
			match ex(b2) {
				Some((bytes, n)) => assert!(r.is_ok() && out.len() == n && out[..] == bytes[..n], "OBL C13.end.omitted_nullable_field_is_null_then_buffered_fields_in_schema_order"),
				None => assert!(r.is_err(), "OBL C13.end.missing_non_nullable_field_is_err"),
			}
			let cfg: &SerializerConfig<'_> = &state.config;
			assert!(pool_wf(cfg), "OBL C14.pool.every_pooled_buffer_is_empty_after_end_or_failure");
			std::mem::forget(r);
		}
	};
}

//@ harness: c13_end_required_field_missing_after_nullable
//@   props: C13, C14
//@   tier: quick
//@   kind: bounded(record {a: long, b: null, c: long}; state: a written, nothing else presented)
//@   fn: ser::serializer::struct_or_map::SerializeStructAsRecordOrMapOrDuration::end (Kind::Record)
//@   domain: the stated state shape
//@   post: Err (c is not nullable); pooled buffers empty
end_harness!(c13_end_required_field_missing_after_nullable, record = &RECORD_ANC, cur = 1, |_b2| Vec::new(), expect = |_b2| None);

//@ harness: c13_end_first_field_missing_with_buffered_successor
//@   props: C13, C14
//@   tier: quick
//@   kind: bounded(record {a: long, b: null, c: long}; state: nothing written, c buffered)
//@   fn: ser::serializer::struct_or_map::SerializeStructAsRecordOrMapOrDuration::end (Kind::Record) + KindRecord::drop (error path)
//@   domain: the stated state shape, buffered byte symbolic
//@   post: Err (a missing); the pending buffer is returned to the pool EMPTY by Drop (a stale buffer would poison the next serialization)
end_harness!(c13_end_first_field_missing_with_buffered_successor, record = &RECORD_ANC, cur = 0, |b2| vec![None, None, Some(vec![b2])], expect = |_b2| None);

//@ harness: c13_record_steps_canary
//@   props: C13, C14
//@   tier: quick
//@   kind: canary
#[kani::proof]
#[kani::unwind(5)]
#[kani::stub(alloc::fmt::format, stub_format)]
#[kani::stub(DatumSerializer::serialize_union_unnamed, DatumSerializer::verif_unreachable_union_arm)]
fn c13_record_steps_canary() {
	let record = record_of(&RECORD_LLL);
	let mut config = ManuallyDrop::new(SerializerConfig::new_with_optional_schema(None));
	let mut state = ManuallyDrop::new(SerializerState::from_writer(Vec::new(), &mut config));
	let mut rs = ManuallyDrop::new(RecordState { expected_fields: record.fields.iter(), current_idx: 0, buffers: Vec::new(), record });
	let v: i64 = 5;
	let r = serialize_record_value(&mut state, &mut rs, 0, &N_LONG, &v);
	assert!(r.is_err(), "OBL canary");
	std::mem::forget(r);
}
