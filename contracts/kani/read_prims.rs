//@ unit: read_prims
//@ inject-into: serde_avro_fast/src/de/read/mod.rs
//@ anchor: serde_avro_fast/src/de/read/mod.rs :: impl<'de> Read for SliceRead<'de> \{
//@ anchor: serde_avro_fast/src/de/read/mod.rs :: impl<R: std::io::BufRead> Read for ReaderRead<R> \{
//@ anchor: serde_avro_fast/src/de/read/mod.rs :: impl<'de, R: std::io::BufRead> ReadSlice<'de> for ReaderRead<R> \{
//@ anchor: serde_avro_fast/src/de/read/mod.rs :: {2} fn skip_bytes\(&mut self, n_bytes: u64\) -> Result<\(\), DeError> \{
//@ anchor: serde_avro_fast/src/de/read/mod.rs :: fn read_const_size_buf<const N: usize>\(&mut self\)
//@ include: spec
//@ include: common

// ---------------------------------------------------------------------------------------------
// Contract of the reader primitives, relational form (C11):
//   for the same bytes, SliceRead and ReaderRead<any chunked BufRead> give
//   (Ok(a), Ok(b)) with a == b and the same number of bytes consumed, or (Err, Err).
// and functional form (C03/C04) for the slice implementation against the executable spec.
// ---------------------------------------------------------------------------------------------

macro_rules! varint_slice_vs_reader {
	($name:ident, $t:ty, $mk:expr) => {
		#[kani::proof]
		#[kani::unwind(13)]
		#[kani::stub(alloc::fmt::format, stub_format)]
		fn $name() {
			let buf: [u8; 11] = kani::any();
			let len: usize = kani::any();
			kani::assume(len <= 11);
			let input = &buf[..len];
			let mut s = SliceRead::new(input);
			let a: Result<$t, DeError> = <SliceRead<'_> as Read>::read_varint::<$t>(&mut s);
			let consumed_a = len - s.slice.len();
			let mk: fn(&[u8]) -> Chunked<'_> = $mk;
			let mut r = ReaderRead::new(mk(input));
			let b: Result<$t, DeError> = Read::read_varint::<$t>(&mut r);
			let consumed_b = r.reader.consumed();
			kani::cover!(a.is_ok() && consumed_a >= 2, "COV multi-byte varint accepted");
			kani::cover!(a.is_err(), "COV rejected");
			match (a, b) {
				(Ok(x), Ok(y)) => {
					assert!(x == y, "OBL C11.read_varint.same_value");
					assert!(consumed_a == consumed_b, "OBL C11.read_varint.same_bytes_consumed");
				}
				(Err(_), Err(_)) => {}
				_ => assert!(false, "OBL C11.read_varint.same_outcome"),
			}
		}
	};
}

fn mk_regular(d: &[u8]) -> Chunked<'_> {
	let k: usize = kani::any();
	kani::assume(k >= 1 && k <= 11);
	Chunked::regular(d, k)
}
fn mk_irregular(d: &[u8]) -> Chunked<'_> {
	Chunked::irregular(d)
}

//@ harness: c11_varint_i64_regular
//@   props: C11
//@   tier: quick
//@   kind: complete
//@   fn: de::read::ReaderRead::read_varint / de::read::SliceRead::read_varint (I = i64)
//@   domain: every byte string of length 0..=11 (no implementation looks further than 10 groups + 1) x every refill size k in 1..=11
//@   post: same value and same bytes consumed, or Err on both
varint_slice_vs_reader!(c11_varint_i64_regular, i64, mk_regular);

//@ harness: c11_varint_i32_regular
//@   props: C11
//@   tier: quick
//@   kind: complete
//@   fn: de::read::ReaderRead::read_varint / de::read::SliceRead::read_varint (I = i32)
//@   domain: every byte string of length 0..=11 x every refill size k in 1..=11
//@   post: same value and same bytes consumed, or Err on both (incl. over-long encodings of in-range ints)
varint_slice_vs_reader!(c11_varint_i32_regular, i32, mk_regular);

//@ harness: c11_varint_u64_regular
//@   props: C11, C12
//@   tier: quick
//@   kind: complete
//@   fn: de::read::ReaderRead::read_varint / de::read::SliceRead::read_varint (I = u64, the skip-zig-zag path)
//@   domain: every byte string of length 0..=11 x every refill size k in 1..=11
//@   post: same value and same bytes consumed, or Err on both
varint_slice_vs_reader!(c11_varint_u64_regular, u64, mk_regular);

//@ harness: c11_varint_u32_regular
//@   props: C11, C12
//@   tier: quick
//@   kind: complete
//@   fn: de::read::ReaderRead::read_varint / de::read::SliceRead::read_varint (I = u32, the skip-zig-zag path for int)
//@   domain: every byte string of length 0..=11 x every refill size k in 1..=11
//@   post: same value and same bytes consumed, or Err on both
varint_slice_vs_reader!(c11_varint_u32_regular, u32, mk_regular);

//@ harness: c11_varint_i64_irregular
//@   props: C11
//@   tier: thorough
//@   kind: complete
//@   fn: de::read::ReaderRead::read_varint (I = i64)
//@   domain: every byte string of length 0..=11 x EVERY partition of it into refills (nondeterministic chunk at each refill)
//@   post: same value and same bytes consumed, or Err on both
varint_slice_vs_reader!(c11_varint_i64_irregular, i64, mk_irregular);

//@ harness: c11_varint_i32_irregular
//@   props: C11
//@   tier: thorough
//@   kind: complete
//@   fn: de::read::ReaderRead::read_varint (I = i32)
//@   domain: every byte string of length 0..=11 x EVERY partition of it into refills
//@   post: same value and same bytes consumed, or Err on both
varint_slice_vs_reader!(c11_varint_i32_irregular, i32, mk_irregular);

// ---- functional contract of the slice varint reader against the specification (C03, C04)

//@ harness: c03_slice_varint_i64_vs_spec
//@   props: C03, C04, C11
//@   tier: quick
//@   kind: complete
//@   fn: de::read::SliceRead::read_varint (I = i64) + integer_encoding::VarInt::decode_var as linked
//@   domain: every byte string of length 0..=11
//@   post: Ok(v) with n bytes consumed <=> spec_dec_long(input) == Some((v, n)); otherwise Err and the reader is not advanced; never panics / reads out of bounds
#[kani::proof]
#[kani::unwind(13)]
#[kani::stub(alloc::fmt::format, stub_format)]
fn c03_slice_varint_i64_vs_spec() {
	let buf: [u8; 11] = kani::any();
	let len: usize = kani::any();
	kani::assume(len <= 11);
	let input = &buf[..len];
	let mut s = SliceRead::new(input);
	let a: Result<i64, DeError> = Read::read_varint::<i64>(&mut s);
	let consumed = len - s.slice.len();
	match spec_dec_long(input) {
		Some((v, n)) => {
			kani::cover!(v == i64::MIN, "COV i64::MIN decoded");
			kani::cover!(n == 10, "COV ten-byte varint");
			assert!(matches!(a, Ok(x) if x == v), "OBL C03.varint_i64.value_is_spec_value");
			assert!(consumed == n, "OBL C03.varint_i64.consumes_exactly_the_varint");
		}
		None => {
			kani::cover!(len == 11, "COV unterminated 11 bytes");
			assert!(a.is_err(), "OBL C03.varint_i64.invalid_is_err");
			assert!(consumed == 0, "OBL C03.varint_i64.err_does_not_advance");
		}
	}
}

//@ harness: c03_slice_varint_i32_vs_spec
//@   props: C03, C04
//@   tier: quick
//@   kind: complete
//@   fn: de::read::SliceRead::read_varint (I = i32)
//@   domain: every byte string of length 0..=11
//@   post: Ok(v) <=> the varint denotes a value in i32 range, equal to v; out-of-range or malformed => Err (never a truncated value)
#[kani::proof]
#[kani::unwind(13)]
#[kani::stub(alloc::fmt::format, stub_format)]
fn c03_slice_varint_i32_vs_spec() {
	let buf: [u8; 11] = kani::any();
	let len: usize = kani::any();
	kani::assume(len <= 11);
	let input = &buf[..len];
	let mut s = SliceRead::new(input);
	let a: Result<i32, DeError> = Read::read_varint::<i32>(&mut s);
	let consumed = len - s.slice.len();
	match spec_dec_int(input) {
		Some((v, n)) => {
			kani::cover!(v == i32::MIN, "COV i32::MIN decoded");
			assert!(matches!(a, Ok(x) if x == v), "OBL C03.varint_i32.value_is_spec_value");
			assert!(consumed == n, "OBL C03.varint_i32.consumes_exactly_the_varint");
		}
		None => {
			kani::cover!(spec_dec_long(input).is_some(), "COV out of i32 range");
			assert!(a.is_err(), "OBL C03.varint_i32.out_of_range_or_invalid_is_err");
		}
	}
}

// ---- fixed-size reads

macro_rules! const_buf_slice_vs_reader {
	($name:ident, $n:expr) => {
		#[kani::proof]
		#[kani::unwind(20)]
		#[kani::stub(alloc::fmt::format, stub_format)]
		fn $name() {
			const N: usize = $n;
			let buf: [u8; N + 1] = kani::any();
			let len: usize = kani::any();
			kani::assume(len <= N + 1);
			let input = &buf[..len];
			let mut s = SliceRead::new(input);
			let a = s.read_const_size_buf::<N>();
			let consumed_a = len - s.slice.len();
			let k: usize = kani::any();
			kani::assume(k >= 1 && k <= N + 1);
			let mut r = ReaderRead::new(Chunked::regular(input, k));
			let b = r.read_const_size_buf::<N>();
			let consumed_b = r.reader.consumed();
			kani::cover!(a.is_ok(), "COV ok");
			kani::cover!(a.is_err(), "COV premature end");
			assert!(a.is_ok() == (len >= N), "OBL C03.read_const_size_buf.ok_iff_enough_input");
			match (a, b) {
				(Ok(x), Ok(y)) => {
					assert!(x == y && x[..] == buf[..N], "OBL C11.read_const_size_buf.same_bytes_as_input");
					assert!(consumed_a == N && consumed_b == N, "OBL C11.read_const_size_buf.consumes_exactly_n");
				}
				(Err(_), Err(_)) => {}
				_ => assert!(false, "OBL C11.read_const_size_buf.same_outcome"),
			}
		}
	};
}

//@ harness: c11_const_buf_4
//@   props: C11, C03, C04
//@   tier: quick
//@   kind: complete
//@   fn: de::read::Read::read_const_size_buf (N = 4: float) on SliceRead and ReaderRead
//@   domain: every input of length 0..=5 x every refill size
//@   post: Ok iff at least N bytes; both readers return the first N bytes and consume exactly N; else Err on both
const_buf_slice_vs_reader!(c11_const_buf_4, 4);

//@ harness: c11_const_buf_8
//@   props: C11, C03, C04
//@   tier: quick
//@   kind: complete
//@   fn: de::read::Read::read_const_size_buf (N = 8: double)
//@   domain: every input of length 0..=9 x every refill size
//@   post: as above
const_buf_slice_vs_reader!(c11_const_buf_8, 8);

//@ harness: c11_const_buf_12
//@   props: C11, C03, C04
//@   tier: quick
//@   kind: complete
//@   fn: de::read::Read::read_const_size_buf (N = 12: duration)
//@   domain: every input of length 0..=13 x every refill size
//@   post: as above
const_buf_slice_vs_reader!(c11_const_buf_12, 12);

//@ harness: c11_const_buf_16
//@   props: C11, C17
//@   tier: thorough
//@   kind: complete
//@   fn: de::read::Read::read_const_size_buf (N = 16: container sync marker)
//@   domain: every input of length 0..=17 x every refill size
//@   post: as above
const_buf_slice_vs_reader!(c11_const_buf_16, 16);

// ---- read_slice / skip_bytes

/// ReadVisitor that copies what it is shown (up to 8 bytes) and remembers the length.
struct CopyVisitor;
impl<'de> ReadVisitor<'de> for CopyVisitor {
	type Value = ([u8; 8], usize);
	fn visit(self, bytes: &[u8]) -> Result<Self::Value, DeError> {
		let mut out = [0u8; 8];
		let n = if bytes.len() < 8 { bytes.len() } else { 8 };
		out[..n].copy_from_slice(&bytes[..n]);
		Ok((out, bytes.len()))
	}
}

//@ harness: c03_read_slice_slice
//@   props: C03, C04, C11
//@   tier: quick
//@   kind: complete
//@   fn: de::read::SliceRead::read_slice
//@   domain: every input of length 0..=6 (content symbolic), every requested length n: usize (incl. 2^62 and usize::MAX)
//@   post: Ok iff n <= len; the visitor is shown exactly input[..n]; exactly n bytes consumed; Err leaves the reader where it was; no out-of-bounds read
#[kani::proof]
#[kani::unwind(9)]
#[kani::stub(alloc::fmt::format, stub_format)]
fn c03_read_slice_slice() {
	let buf: [u8; 6] = kani::any();
	let len: usize = kani::any();
	kani::assume(len <= 6);
	let input = &buf[..len];
	let n: usize = kani::any();
	let mut s = SliceRead::new(input);
	let a = s.read_slice(n, CopyVisitor);
	let consumed_a = len - s.slice.len();
	kani::cover!(n > (1usize << 62), "COV hostile length");
	kani::cover!(a.is_ok() && n == 6, "COV whole input");
	assert!(a.is_ok() == (n <= len), "OBL C03.read_slice.slice_ok_iff_available");
	if let Ok((bytes, l)) = &a {
		assert!(*l == n && bytes[..n] == buf[..n] && consumed_a == n, "OBL C03.read_slice.slice_exact_bytes");
	} else {
		assert!(consumed_a == 0, "OBL C04.read_slice.slice_err_does_not_advance");
	}
	std::mem::forget(a);
}

//@ harness: c11_read_slice
//@   props: C11, C04, C03
//@   tier: quick
//@   kind: bounded(input length <= 4, max_alloc_size <= 4; n symbolic over all usize)
//@   fn: de::read::ReadSlice::read_slice on ReaderRead (in-buffer visit vs scratch copy) vs SliceRead
//@   domain: every input of length 0..=4, every requested length n (any usize), every refill size, max_alloc_size symbolic 0..=4
//@   post: same bytes and consumption as the slice reader when Ok; never Ok where the slice reader fails; reader Err where slice is Ok only by the allocation cap (n > max_alloc_size and not already buffered); scratch never grows beyond max_alloc_size
#[kani::proof]
#[kani::unwind(7)]
#[kani::stub(alloc::fmt::format, stub_format)]
fn c11_read_slice() {
	let buf: [u8; 4] = kani::any();
	let len: usize = kani::any();
	kani::assume(len <= 4);
	let input = &buf[..len];
	let n: usize = kani::any();
	let mut s = SliceRead::new(input);
	let a = s.read_slice(n, CopyVisitor);
	let consumed_a = len - s.slice.len();
	let k: usize = kani::any();
	kani::assume(k >= 1 && k <= 4);
	let mut r = ReaderRead::new(Chunked::regular(input, k));
	let cap: usize = kani::any();
	kani::assume(cap <= 4);
	r.max_alloc_size = cap;
	let b = r.read_slice(n, CopyVisitor);
	let consumed_b = r.reader.consumed();
	kani::cover!(b.is_ok() && n > k, "COV scratch path taken");
	kani::cover!(b.is_ok() && n <= k && n > 0, "COV in-buffer path taken");
	kani::cover!(b.is_err() && n > cap && n <= len, "COV allocation cap hit");
	assert!(r.scratch.len() <= cap, "OBL C04.read_slice.scratch_bounded_by_max_alloc_size");
	match (&a, &b) {
		(Ok((x, lx)), Ok((y, ly))) => {
			assert!(lx == ly && x[..n] == y[..n], "OBL C11.read_slice.same_bytes");
			assert!(consumed_a == consumed_b, "OBL C11.read_slice.same_bytes_consumed");
		}
		(Err(_), Ok(_)) => assert!(false, "OBL C11.read_slice.reader_never_succeeds_where_slice_fails"),
		(Ok(_), Err(_)) => {
			assert!(n > cap, "OBL C11.read_slice.reader_err_only_by_alloc_cap");
		}
		(Err(_), Err(_)) => {}
	}
	std::mem::forget(a);
	std::mem::forget(b);
	std::mem::forget(r);
}

//@ harness: c11_read_slice_after_larger_read
//@   props: C11, C03, C04, C01
//@   tier: quick
//@   kind: bounded(one-byte refills; scratch buffer left at length 3 by an earlier, larger read; input of 3 bytes; requested length n symbolic 0..=3)
//@   fn: de::read::ReadSlice::read_slice on ReaderRead - scratch path on a reader with HISTORY (the scratch buffer only ever grows)
//@   domain: n in 0..=3, content symbolic
//@   post: exactly n bytes are consumed and shown (not as many as the scratch buffer happens to hold from an earlier read); the following data is left untouched
#[kani::proof]
#[kani::unwind(7)]
#[kani::stub(alloc::fmt::format, stub_format)]
fn c11_read_slice_after_larger_read() {
	let buf: [u8; 3] = kani::any();
	let n: usize = kani::any();
	kani::assume(n <= 3);
	let mut r = ReaderRead::new(Chunked::regular(&buf[..], 1));
	r.scratch = vec![0xEE, 0xEE, 0xEE]; // as left behind by an earlier read_slice(3, ..) through the scratch path
	let b = r.read_slice(n, CopyVisitor);
	let consumed = r.reader.consumed();
	kani::cover!(n == 2, "COV smaller read after a larger one");
	match &b {
		Ok((bytes, l)) => {
			assert!(*l == n && bytes[..n] == buf[..n], "OBL C11.read_slice.same_bytes");
			assert!(consumed == n, "OBL C11.read_slice.consumes_exactly_n_whatever_the_scratch_buffer_holds");
		}
		Err(_) => assert!(false, "OBL C11.read_slice.available_bytes_must_be_readable"),
	}
	std::mem::forget(b);
	std::mem::forget(r);
}

//@ harness: c12_skip_bytes_slice
//@   props: C12, C04, C11
//@   tier: quick
//@   kind: complete
//@   fn: de::read::SliceRead::skip_bytes
//@   domain: every input length 0..=6, every n: u64 (incl. 2^62, values > usize::MAX are impossible on 64-bit but the conversion is checked)
//@   post: Ok iff n <= len, consuming exactly n; otherwise Err without advancing; no overflow/panic
#[kani::proof]
#[kani::unwind(9)]
#[kani::stub(alloc::fmt::format, stub_format)]
fn c12_skip_bytes_slice() {
	let buf: [u8; 6] = kani::any();
	let len: usize = kani::any();
	kani::assume(len <= 6);
	let input = &buf[..len];
	let n: u64 = kani::any();
	let mut s = SliceRead::new(input);
	let a = s.skip_bytes(n);
	let consumed_a = len - s.slice.len();
	kani::cover!(n > (1u64 << 62), "COV hostile length");
	kani::cover!(a.is_ok() && n == 6, "COV skipped all");
	assert!(a.is_ok() == (n <= len as u64), "OBL C12.skip_bytes.slice_ok_iff_available");
	assert!(consumed_a == if a.is_ok() { n as usize } else { 0 }, "OBL C12.skip_bytes.slice_consumes_exactly_n");
	std::mem::forget(a);
}

//@ harness: c11_skip_bytes
//@   props: C11, C12, C04
//@   tier: quick
//@   kind: bounded(input length <= 5; n symbolic over all u64); std::io::copy replaced by its assumed contract (A1b)
//@   fn: de::read::Read::skip_bytes default impl on ReaderRead (io::copy of a Take into sink) vs SliceRead
//@   domain: every input length 0..=5, every n: u64, every refill size
//@   post: Ok iff n <= len on both, consuming exactly n; otherwise Err on both
#[kani::proof]
#[kani::unwind(8)]
#[kani::stub(alloc::fmt::format, stub_format)]
#[kani::stub(std::io::copy, model_io_copy)]
fn c11_skip_bytes() {
	let buf: [u8; 5] = kani::any();
	let len: usize = kani::any();
	kani::assume(len <= 5);
	let input = &buf[..len];
	let n: u64 = kani::any();
	let mut s = SliceRead::new(input);
	let a = s.skip_bytes(n);
	let consumed_a = len - s.slice.len();
	let k: usize = kani::any();
	kani::assume(k >= 1 && k <= 5);
	let mut r = ReaderRead::new(Chunked::regular(input, k));
	let b = r.skip_bytes(n);
	let consumed_b = r.reader.consumed();
	kani::cover!(a.is_ok() && n > 1, "COV skipped several");
	kani::cover!(n > (1u64 << 62), "COV hostile length");
	assert!(a.is_ok() == b.is_ok(), "OBL C11.skip_bytes.same_outcome");
	if b.is_ok() {
		assert!(consumed_b == consumed_a, "OBL C11.skip_bytes.same_bytes_consumed");
	}
	std::mem::forget(a);
	std::mem::forget(b);
	std::mem::forget(r);
}

//@ harness: c17_reader_take_contract
//@   props: C17, C11
//@   tier: quick
//@   kind: bounded(input length <= 5; block size any usize; every refill size)
//@   fn: de::read::take::{<ReaderRead<R> as Take>::take, <ReaderRead<io::Take<R>> as IntoLeftAfterTake>::into_left_after_take}
//@   domain: every input length 0..=5, every declared block size, every number of bytes then read from the block (0..=declared, as far as available)
//@   post: the sub-reader never yields more than the declared block size; into_left_after_take is Ok iff the whole declared block was consumed (a block whose declared size disagrees with what was read, or that is cut short, is an error) and then the outer reader resumes exactly after the block
#[kani::proof]
#[kani::unwind(8)]
#[kani::stub(alloc::fmt::format, stub_format)]
fn c17_reader_take_contract() {
	use super::take::{IntoLeftAfterTake, Take};
	let buf: [u8; 5] = kani::any();
	let len: usize = kani::any();
	kani::assume(len <= 5);
	let k: usize = kani::any();
	kani::assume(k >= 1 && k <= 5);
	let n: usize = kani::any();
	let rr = ReaderRead::new(Chunked::regular(&buf[..len], k));
	let mut sub = match rr.take(n) {
		Ok(s) => s,
		Err(e) => {
			std::mem::forget(e);
			assert!(false, "OBL C17.reader_take.any_usize_block_size_is_accepted_lazily");
			return;
		}
	};
	let want: usize = kani::any();
	kani::assume(want <= 6);
	let mut tmp = [0u8; 6];
	let mut got = 0usize;
	// read up to `want` bytes, one read call at a time
	let mut i = 0;
	while i < 6 && got < want {
		match std::io::Read::read(&mut sub, &mut tmp[got..want]) {
			Ok(0) => break,
			Ok(m) => got += m,
			Err(e) => {
				std::mem::forget(e);
				break;
			}
		}
		i += 1;
	}
	assert!(got <= n && got <= len, "OBL C17.reader_take.sub_reader_limited_to_declared_block_size_and_input");
	assert!(tmp[..got] == buf[..got], "OBL C17.reader_take.sub_reader_yields_the_blocks_bytes");
	kani::cover!(got == n && n == 3, "COV block fully consumed");
	kani::cover!(got < n && got == len, "COV file cut inside the block");
	match sub.into_left_after_take() {
		Ok(rest) => {
			assert!(got == n, "OBL C17.reader_take.leftover_or_truncated_block_is_an_error");
			assert!(rest.reader.consumed() == n, "OBL C17.reader_take.resumes_exactly_after_the_block");
			std::mem::forget(rest);
		}
		Err(e) => {
			std::mem::forget(e);
			assert!(got < n, "OBL C17.reader_take.fully_consumed_block_is_accepted");
		}
	}
}

//@ harness: c11_read_prims_canary
//@   props: C11, C03, C04, C12
//@   tier: quick
//@   kind: canary
#[kani::proof]
#[kani::unwind(13)]
#[kani::stub(alloc::fmt::format, stub_format)]
fn c11_read_prims_canary() {
	let buf: [u8; 11] = kani::any();
	let len: usize = kani::any();
	kani::assume(len <= 11);
	let k: usize = kani::any();
	kani::assume(k >= 1 && k <= 11);
	let mut r = ReaderRead::new(Chunked::regular(&buf[..len], k));
	let b: Result<i64, DeError> = Read::read_varint::<i64>(&mut r);
	assert!(b.is_err(), "OBL canary");
}
