// ---- shared harness helpers (inlined into contract modules that `//@ include: common`)

/// Assumption A4: error-message formatting is cut; no contract mentions a message.
fn stub_format(_args: core::fmt::Arguments<'_>) -> std::string::String {
	std::string::String::new()
}
fn stub_fmt_write(_out: &mut dyn core::fmt::Write, _args: core::fmt::Arguments<'_>) -> core::fmt::Result {
	Ok(())
}

/// A fixed-capacity byte sink (cheaper for CBMC than Vec<u8>); records everything written.
struct ArrSink<const N: usize> {
	buf: [u8; N],
	len: usize,
	overflowed: bool,
}
impl<const N: usize> ArrSink<N> {
	fn new() -> Self {
		Self { buf: [0u8; N], len: 0, overflowed: false }
	}
	fn bytes(&self) -> &[u8] {
		&self.buf[..self.len]
	}
}
impl<const N: usize> std::io::Write for ArrSink<N> {
	fn write(&mut self, data: &[u8]) -> std::io::Result<usize> {
		let mut i = 0;
		while i < data.len() {
			if self.len < N {
				self.buf[self.len] = data[i];
				self.len += 1;
			} else {
				self.overflowed = true;
			}
			i += 1;
		}
		Ok(data.len())
	}
	fn flush(&mut self) -> std::io::Result<()> {
		Ok(())
	}
}

/// BufRead test double: every `fill_buf` exposes a *nondeterministic* non-empty prefix of what
/// is left (chosen when the previous chunk is exhausted) => all partitions of the stream into
/// refills are explored, not only regular ones.
struct Chunked<'a> {
	data: &'a [u8],
	pos: usize,
	chunk_end: usize,
}
impl<'a> Chunked<'a> {
	fn new(data: &'a [u8]) -> Self {
		Self { data, pos: 0, chunk_end: 0 }
	}
	fn consumed(&self) -> usize {
		self.pos
	}
}
impl<'a> std::io::Read for Chunked<'a> {
	fn read(&mut self, out: &mut [u8]) -> std::io::Result<usize> {
		use std::io::BufRead;
		let n = {
			let avail = self.fill_buf()?;
			let n = if avail.len() < out.len() { avail.len() } else { out.len() };
			let mut i = 0;
			while i < n {
				out[i] = avail[i];
				i += 1;
			}
			n
		};
		self.consume(n);
		Ok(n)
	}
}
impl<'a> std::io::BufRead for Chunked<'a> {
	fn fill_buf(&mut self) -> std::io::Result<&[u8]> {
		if self.pos >= self.chunk_end && self.pos < self.data.len() {
			let k: usize = kani::any();
			kani::assume(k >= 1 && k <= self.data.len() - self.pos);
			self.chunk_end = self.pos + k;
		}
		Ok(&self.data[self.pos..self.chunk_end.max(self.pos)])
	}
	fn consume(&mut self, amt: usize) {
		self.pos += amt;
		assert!(self.pos <= self.chunk_end || amt == 0, "consume past the exposed chunk");
	}
}
