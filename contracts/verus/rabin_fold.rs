// Verus unit: unbounded fold contract for the real `Rabin::write` (C08).
//
// Extracted mechanically from /repo's current tree on every run (engine/check.py run_verus_unit):
//@ extract EMPTY64: serde_avro_fast/src/schema/safe/rabin.rs :: ^const EMPTY64: u64
//@ extract RABIN: serde_avro_fast/src/schema/safe/rabin.rs :: ^pub struct Rabin
//@ extract FP_TABLE: serde_avro_fast/src/schema/safe/rabin.rs :: ^const FP_TABLE: &\[u64; 256\]
//@ extract WRITE: serde_avro_fast/src/schema/safe/rabin.rs :: pub\(crate\) fn write\(&mut self, data: &\[u8\]\)
//
// What the extraction changes (each rewrite must apply exactly once, else the run is UNDECIDED):
//  R1  Verus compiles a `const` into a function and cannot return a reference from it: the table
//      is declared by value instead of by reference (indexing is unchanged).
//@ rewrite FP_TABLE: const FP_TABLE: &\[u64; 256\] = &\[ ==>> const FP_TABLE: [u64; 256] = [
//  R2  `for &b in data {` (iterator + ref pattern, outside Verus' subset) is desugared into the
//      equivalent indexed `while`, which is where the loop invariant is attached.
//@ rewrite WRITE: for &b in data \{ ==>> let mut i: usize = 0;\n\t\twhile i < data.len()\n\t\t\tinvariant i <= data.len(), self.result == fold(old(self).result, data@.subrange(0, i as int)),\n\t\t\tdecreases data.len() - i,\n\t\t{\n\t\t\tlet b = data[i];\n\t\t\tproof { lemma_fold_snoc(old(self).result, data@, i as int); lemma_index_in_range(self.result, b); }
//  R3  the loop counter increment is appended to the (single-statement) loop body, and a proof
//      hint (ghost code, erased) follows the loop.
//@ rewrite WRITE: (as usize\];)(\s*\}) ==>> \1\n\t\t\ti = i + 1;\2\n\t\tproof { assert(data@.subrange(0, data.len() as int) =~= data@); }
//  R4  the contract itself (requires/ensures) is attached to the signature.
//@ rewrite WRITE: (fn write\(&mut self, data: &\[u8\]\)) ==>> \1\n\t\tensures final(self).result == fold(old(self).result, data@),
//      (`finish` = u64::to_le_bytes is outside Verus' std model; it is the Kani obligation c08_rabin_init_finish.)
// Nothing else is dropped or edited: the table entries, the constants, the struct and the loop
// body are the repository's text.
use vstd::prelude::*;
verus! {

//@@ EMPTY64

//@@ RABIN

//@@ FP_TABLE

/// One table-driven step, exactly the expression in the loop body (the equality of this step
/// with the bit-by-bit CRC-64-AVRO definition for all 2^72 (state, byte) pairs is the Kani
/// obligation C08.c08_rabin_write_one_byte).
spec fn step(s: u64, b: u8) -> u64 {
    (s >> 8) ^ FP_TABLE@[((s ^ (b as u64)) & 0xFF) as int]
}

/// CRC of a byte string = left fold of `step`.
spec fn fold(s: u64, data: Seq<u8>) -> u64
    decreases data.len(),
{
    if data.len() == 0 { s } else { step(fold(s, data.drop_last()), data.last()) }
}

proof fn lemma_index_in_range(s: u64, b: u8)
    ensures 0 <= ((s ^ (b as u64)) & 0xFF) < 256,
{
    assert(((s ^ (b as u64)) & 0xFF) < 256) by (bit_vector);
}

proof fn lemma_fold_snoc(s: u64, data: Seq<u8>, i: int)
    requires 0 <= i < data.len(),
    ensures fold(s, data.subrange(0, i + 1)) == step(fold(s, data.subrange(0, i)), data[i]),
{
    let a = data.subrange(0, i + 1);
    assert(a.drop_last() =~= data.subrange(0, i));
    assert(a.last() == data[i]);
}

/// Streaming in pieces is sound: write(a); write(b) == write(a ++ b)  (the canonical form is
/// streamed into the hasher piecewise).
proof fn lemma_fold_concat(s: u64, a: Seq<u8>, b: Seq<u8>)
    ensures fold(s, a + b) == fold(fold(s, a), b),
    decreases b.len(),
{
    if b.len() == 0 {
        assert(a + b =~= a);
    } else {
        lemma_fold_concat(s, a, b.drop_last());
        assert((a + b).drop_last() =~= a + b.drop_last());
        assert((a + b).last() == b.last());
    }
}

impl Rabin {
//@@ WRITE

    /// Composition: two successive writes equal one write of the concatenation.
    fn write_twice(&mut self, a: &[u8], b: &[u8])
        ensures final(self).result == fold(old(self).result, a@ + b@),
    {
        self.write(a);
        self.write(b);
        proof { lemma_fold_concat(old(self).result, a@, b@); }
    }
}

} // verus!
