#!/usr/bin/env python3
"""Development aid (not used by registered commands): inject the units needed by one harness into a
scratch copy and show what CBMC unwinds within a time budget.  usage: probe.py <harness> [seconds]"""
import os, sys, subprocess, shutil, re, collections
sys.path.insert(0, os.path.dirname(os.path.abspath(__file__)))
import check as C
name = sys.argv[1]; secs = int(sys.argv[2]) if len(sys.argv) > 2 else 90
units = C.load_units()
h = [x for u in units.values() for x in u.harnesses if x["name"] == name][0]
used = [h["unit"]]
ch = True
while ch:
    ch = False
    for u in list(used):
        for r in u.requires:
            if units[r] not in used: used.append(units[r]); ch = True
scratch = C.make_scratch("probe")
C.inject(scratch, used)
target = os.path.join(C.CACHE, "kani-target")
cmd = ["timeout", str(secs), "cargo", "kani", "-p", "serde_avro_fast", "-Z", "function-contracts", "-Z", "stubbing", "-Z", "unstable-options",
       "--exact", "--harness", h["unit"].full_harness(h), "--output-format", "old", "--target-dir", target] + sys.argv[3:]
p = subprocess.run(cmd, cwd=scratch, stdout=subprocess.PIPE, stderr=subprocess.STDOUT, text=True, env=dict(os.environ, CARGO_NET_OFFLINE="true", CARGO_INCREMENTAL="0"))
cnt = collections.Counter()
for line in p.stdout.splitlines():
    if "nwinding" in line:
        cnt[re.sub(r"iteration \d+.*", "", re.sub(r"thread \d+", "", line)).strip()[:220]] += 1
for k, v in cnt.most_common(25): print(v, k)
print("...tail:"); print("\n".join(p.stdout.splitlines()[-8:]))
shutil.rmtree(scratch, ignore_errors=True)
