//@ unit: schema_helper
//@ inject-into: serde_avro_fast/src/schema/self_referential.rs
//@ anchor: serde_avro_fast/src/schema/self_referential.rs :: pub struct Schema \{
//@ anchor: serde_avro_fast/src/schema/self_referential.rs :: pub\(crate\) fn root<'a>\(&'a self\) -> NodeRef<'a>

/// Test-harness constructor: a frozen `Schema` whose node vector, fingerprint and JSON are given
/// directly (the fields are private to this file).  It does NOT go through parsing / freeze
/// (serde_json + HashMap are out of CBMC's reach, DESIGN §1); harnesses that use it state which
/// node kinds they build.
pub(crate) fn mk_schema(nodes: Vec<SchemaNode<'static>>, fingerprint: [u8; 8]) -> Schema {
	Schema { nodes, fingerprint, schema_json: String::new() }
}
