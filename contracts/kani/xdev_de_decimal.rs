//@ unit: xdev_de_decimal
//@ inject-into: serde_avro_fast/src/de/deserializer/mod.rs
//@ requires-unit: schema_helper
//@ requires-unit: depth
//@ anchor: serde_avro_fast/src/de/deserializer/mod.rs :: fn deserialize_any<V>\(self, visitor: V\)
//@ anchor: serde_avro_fast/src/de/deserializer/mod.rs :: fn deserialize_option<V>\(self, visitor: V\)
//@ anchor: serde_avro_fast/src/de/deserializer/mod.rs :: fn deserialize_ignored_any<V>\(self, visitor: V\)
//@ anchor: serde_avro_fast/src/de/deserializer/types/boolean.rs :: pub\(in super::super\) fn read_bool<'de, R, V>\(
//@ anchor: serde_avro_fast/src/de/deserializer/types/length_delimited.rs :: pub\(super\) fn read_len<'de, R>\(
//@ anchor: serde_avro_fast/src/de/deserializer/types/enums.rs :: pub\(in super::super\) fn read_enum_as_str<'de, R, V>\(
//@ anchor: serde_avro_fast/src/de/deserializer/types/union.rs :: pub\(in super::super\) fn read_union_discriminant<'de, 's, R>\(
//@ include: spec
//@ include: common

// ---------------------------------------------------------------------------------------------
// Decoder contracts (C03 conformance, C04 totality/limits, C12 skip == read, C01 decode half):
// the real `impl Deserializer for DatumDeserializer` on static nodes, over every byte string the
// node kind can examine; oracle = executable specification.
// ---------------------------------------------------------------------------------------------

use crate::schema::self_referential::__verif_schema_helper::{
	decimal_bytes_node, decimal_fixed_node, fixed_node, TWO_SYMBOLS, UNION_LONG_NULL, UNION_NULL_LONG,
	UNION_NULL_LONG_DOUBLE, N_DOUBLE, N_LONG, N_NULL,
};
use crate::schema::self_referential::NodeRef;

fn state_over<'a>(node: &'static SchemaNode<'static>, bytes: &'a [u8]) -> DeserializerState<'static, SliceRead<'a>> {
	DeserializerState::from_schema_node(SliceRead::new(bytes), NodeRef::from_static(node))
}
fn remaining<R: std::io::BufRead>(r: &mut R) -> usize {
	match r.fill_buf() {
		Ok(b) => b.len(),
		Err(_) => usize::MAX,
	}
}


/// Frame obligation: on the integer-hinted scale-0 path `read_decimal` returns before rust_decimal
/// (trusted dependency, A3) is entered.  The stand-in asserts that it is NOT entered; `assume(false)`
/// after the assertion only stops CBMC from symbolically executing rust_decimal's conversion and
/// formatting code behind a call that the assertion has just shown unreachable.
fn verif_unreachable_rust_decimal(_num: i128, scale: u32) -> Result<rust_decimal::Decimal, rust_decimal::Error> {
	assert!(false, "OBL frame.integer_hint_scale0_never_enters_rust_decimal");
	kani::assume(false);
	Err(rust_decimal::Error::ScaleExceedsMaximumPrecision(scale))
}


fn x_unreachable_from_utf8(_v: &[u8]) -> Result<&str, std::str::Utf8Error> {
	assert!(false, "OBL frame.string_arm_not_entered_for_non_string_node");
	Ok("")
}

macro_rules! decimal_fixed_i128 {
	($name:ident, $size:expr, $inlen:expr) => {
		#[kani::proof]
		#[kani::unwind(19)]
		#[kani::stub(alloc::fmt::format, stub_format)]
		#[kani::stub(rust_decimal::Decimal::try_from_i128_with_scale, verif_unreachable_rust_decimal)]
		fn $name() {
			static DF: SchemaNode<'static> = decimal_fixed_node($size, 0);
			let buf: [u8; $inlen] = kani::any();
			let len: usize = kani::any();
			kani::assume(len <= $inlen);
			let input = &buf[..len];
			let mut st = state_over(&DF, input);
			let r = <i128 as Deserialize>::deserialize(st.deserializer());
			if $size > 16 {
				assert!(r.is_err(), "OBL C04.decimal_fixed.size_over_16_is_err");
			} else if len >= $size {
				assert!(matches!(r, Ok(v) if v == spec_twos_complement(&input[..$size])), "OBL C03.decimal_fixed.value_is_sign_extended");
				assert!(len - remaining(&mut st.reader) == $size, "OBL C03.decimal_fixed.consumes_fixed_size");
			} else {
				assert!(r.is_err(), "OBL C03.decimal_fixed.premature_end_is_err");
			}
			std::mem::forget(r);
		}
	};
}

//@ harness: x03_decimal_fixed0_i128
//@   props: XDEV
//@   tier: quick
//@   kind: complete
//@   fn: read_decimal
//@   domain: fixed(0)
//@   post: zero
decimal_fixed_i128!(x03_decimal_fixed0_i128, 0, 1);

//@ harness: x03_decimal_fixed1_i128
//@   props: XDEV
//@   tier: quick
//@   kind: complete
//@   fn: read_decimal
//@   domain: fixed(1)
//@   post: value
decimal_fixed_i128!(x03_decimal_fixed1_i128, 1, 2);

//@ harness: x03_decimal_fixed16_i128
//@   props: XDEV
//@   tier: quick
//@   kind: complete
//@   fn: read_decimal
//@   domain: fixed(16)
//@   post: value
decimal_fixed_i128!(x03_decimal_fixed16_i128, 16, 17);

//@ harness: x03_decimal_fixed17_i128
//@   props: XDEV
//@   tier: quick
//@   kind: complete
//@   fn: read_decimal
//@   domain: fixed(17)
//@   post: err
decimal_fixed_i128!(x03_decimal_fixed17_i128, 17, 18);


macro_rules! decimal_bytes_i128 {
	($name:ident, $l:expr, $avail:expr) => {
		#[kani::proof]
		#[kani::unwind(19)]
		#[kani::stub(alloc::fmt::format, stub_format)]
		#[kani::stub(rust_decimal::Decimal::try_from_i128_with_scale, verif_unreachable_rust_decimal)]
		#[kani::stub(core::str::from_utf8, x_unreachable_from_utf8)]
		fn $name() {
			static DB: SchemaNode<'static> = decimal_bytes_node(0);
			// [one-byte zig-zag length prefix of L][AVAIL symbolic bytes]
			let mut buf: [u8; 1 + $avail] = kani::any();
			buf[0] = (2 * $l) as u8;
			let mut st = state_over(&DB, &buf[..]);
			let r = <i128 as Deserialize>::deserialize(st.deserializer());
			let consumed = 1 + $avail - remaining(&mut st.reader);
			if $l > 16 {
				assert!(r.is_err(), "OBL C04.decimal.length_over_16_is_err");
			} else if $avail >= $l {
				assert!(matches!(r, Ok(v) if v == spec_twos_complement(&buf[1..1 + $l])), "OBL C03.decimal.value_is_sign_extended_big_endian_payload");
				assert!(consumed == 1 + $l, "OBL C03.decimal.consumes_prefix_plus_payload");
			} else {
				assert!(r.is_err(), "OBL C03.decimal.payload_cut_short_is_err");
			}
			std::mem::forget(r);
		}
	};
}

//@ harness: x03_decimal_bytes0_i128
//@   props: XDEV
//@   tier: quick
//@   kind: complete
//@   fn: f
//@   domain: d
//@   post: p
decimal_bytes_i128!(x03_decimal_bytes0_i128, 0, 1);

//@ harness: x03_decimal_bytes2_i128
//@   props: XDEV
//@   tier: quick
//@   kind: complete
//@   fn: f
//@   domain: d
//@   post: p
decimal_bytes_i128!(x03_decimal_bytes2_i128, 2, 3);

//@ harness: x03_decimal_bytes16_i128
//@   props: XDEV
//@   tier: quick
//@   kind: complete
//@   fn: f
//@   domain: d
//@   post: p
decimal_bytes_i128!(x03_decimal_bytes16_i128, 16, 17);

//@ harness: x03_decimal_bytes17_i128
//@   props: XDEV
//@   tier: quick
//@   kind: complete
//@   fn: f
//@   domain: d
//@   post: p
decimal_bytes_i128!(x03_decimal_bytes17_i128, 17, 18);

//@ harness: x03_decimal_bytes2_cut
//@   props: XDEV
//@   tier: quick
//@   kind: complete
//@   fn: f
//@   domain: d
//@   post: p
decimal_bytes_i128!(x03_decimal_bytes2_cut, 2, 1);

//@ harness: x03_decimal_bytes_negative_len
//@   props: XDEV
//@   tier: quick
//@   kind: complete
//@   fn: f
//@   domain: d
//@   post: p
#[kani::proof]
#[kani::unwind(19)]
#[kani::stub(alloc::fmt::format, stub_format)]
#[kani::stub(rust_decimal::Decimal::try_from_i128_with_scale, verif_unreachable_rust_decimal)]
fn x03_decimal_bytes_negative_len() {
	static DB: SchemaNode<'static> = decimal_bytes_node(0);
	let mut buf: [u8; 3] = kani::any();
	buf[0] = 1; // zig-zag of -1
	let mut st = state_over(&DB, &buf[..]);
	let r = <i128 as Deserialize>::deserialize(st.deserializer());
	assert!(r.is_err(), "OBL C04.decimal.negative_length_is_err");
	std::mem::forget(r);
}
