// Verus unit: the priority / conflict resolution step of `PerTypeLookup::new` (C02: "a
// type-directed union choice with several equally suitable branches yields Err").
//
// `PerTypeLookup::new` itself populates a HashMap (out of reach, A2); the part that decides which
// branch a serde call selects is the `register` closure: a three-state machine per lookup key,
// folded over the union's branches.  Its text is extracted mechanically on every run:
//@ extract ENUM: serde_avro_fast/src/schema/union_variants_per_type_lookup.rs :: enum NoneSomeOrConflict<'a> \{
//@ extract STEP: serde_avro_fast/src/schema/union_variants_per_type_lookup.rs :: let mut register = \|variant: UnionVariantLookupKey, priority: usize\| \{
//
// What the extraction changes (each rewrite must apply exactly once, else UNDECIDED):
//  R1  the closure header becomes a function header; the closure's captured variables
//      (`discriminant`, `schema_node`) and the table slot it indexes become parameters.
//@ rewrite STEP: let mut register = \|variant: UnionVariantLookupKey, priority: usize\| \{ ==>> fn register_step<'a>(val: &mut NoneSomeOrConflict<'a>, discriminant: i64, schema_node: NodeRef<'a>, priority: usize, Ghost(h): Ghost<Seq<(int, int)>>)\n\trequires wf(*old(val), h),\n\tensures wf(*final(val), h.push((priority as int, discriminant as int))),\n{\n\tproof { lemma_step(h, priority as int, discriminant as int); }
//  R2  the slot lookup line is dropped (the slot is the parameter `val`).
//@ rewrite STEP: let val = &mut per_direct_union_variant\[variant as usize\]; ==>> 
//  R3  `old_priority.cmp(&priority)` + `match` on Ordering is outside Verus' std model: it is
//      rewritten into the equivalent if/else-if/else chain, arms unchanged.
//@ rewrite STEP: match old_priority\.cmp\(&priority\) \{\s*Ordering::Less => \{\}\s*Ordering::Equal => \{(.*?)\}\s*Ordering::Greater => \{(.*?)\}\s*\} ==>> if old_priority < priority {} else if old_priority == priority {\1} else {\2}
//  R4  the enum gets no derive (Copy is not needed once the slot is a &mut parameter).
// R1 also adds the ghost parameter `h` (history of registered (priority, branch) pairs; erased)
// and the contract.
use vstd::prelude::*;
verus! {

/// stand-in for the crate's pointer type: only moved around, never dereferenced by the step
pub struct NodeRef<'a> { pub x: &'a u8 }

//@@ ENUM

/// minimum priority over a history (usize::MAX + 1 for the empty history)
spec fn min_prio(h: Seq<(int, int)>) -> int
    decreases h.len(),
{
    if h.len() == 0 { usize::MAX as int + 1 } else {
        let m = min_prio(h.drop_last());
        if h.last().0 < m { h.last().0 } else { m }
    }
}
/// number of history entries at the minimum priority
spec fn count_at(h: Seq<(int, int)>, p: int) -> nat
    decreases h.len(),
{
    if h.len() == 0 { 0 } else { count_at(h.drop_last(), p) + if h.last().0 == p { 1nat } else { 0nat } }
}
/// branch (discriminant) of the LAST entry at priority p
spec fn last_at(h: Seq<(int, int)>, p: int) -> int
    decreases h.len(),
{
    if h.len() == 0 { -1 } else if h.last().0 == p { h.last().1 } else { last_at(h.drop_last(), p) }
}

/// Abstraction relation: the slot encodes "the unique best candidate, or a conflict".
///   None            <=> nothing registered
///   Some{p, (d,_)}  <=> p is the minimum priority, attained exactly once, by branch d
///   Conflict{p}     <=> p is the minimum priority, attained at least twice
/// Hence the final table entry is Some(branch) iff exactly one branch is most suitable, and the
/// serializer gets None (=> Err) when several equally suitable branches exist.
spec fn wf(v: NoneSomeOrConflict, h: Seq<(int, int)>) -> bool {
    match v {
        NoneSomeOrConflict::None => h.len() == 0,
        NoneSomeOrConflict::Some { priority, discriminant_and_schema_node } =>
            h.len() > 0 && priority as int == min_prio(h) && count_at(h, priority as int) == 1
                && discriminant_and_schema_node.0 as int == last_at(h, priority as int),
        NoneSomeOrConflict::Conflict { priority } =>
            h.len() > 0 && priority as int == min_prio(h) && count_at(h, priority as int) >= 2,
    }
}

proof fn lemma_count_zero_below_min(h: Seq<(int, int)>, p: int)
    requires p < min_prio(h),
    ensures count_at(h, p) == 0,
    decreases h.len(),
{
    if h.len() > 0 { lemma_count_zero_below_min(h.drop_last(), p); }
}

proof fn lemma_step(h: Seq<(int, int)>, p: int, d: int)
    ensures
        min_prio(h.push((p, d))) == (if p < min_prio(h) { p } else { min_prio(h) }),
        forall|q: int| #[trigger] count_at(h.push((p, d)), q) == count_at(h, q) + (if p == q { 1nat } else { 0nat }),
        forall|q: int| #[trigger] last_at(h.push((p, d)), q) == (if p == q { d } else { last_at(h, q) }),
        forall|q: int| q < min_prio(h) ==> #[trigger] count_at(h, q) == 0,
{
    let h2 = h.push((p, d));
    assert(h2.drop_last() =~= h);
    assert(h2.last() == (p, d));
    assert forall|q: int| q < min_prio(h) implies #[trigger] count_at(h, q) == 0 by { lemma_count_zero_below_min(h, q); }
}

//@@ STEP

} // verus!
