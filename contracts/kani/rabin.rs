//@ unit: rabin
//@ inject-into: serde_avro_fast/src/schema/safe/rabin.rs
//@ anchor: serde_avro_fast/src/schema/safe/rabin.rs :: pub\(crate\) fn write\(&mut self, data: &\[u8\]\)
//@ anchor: serde_avro_fast/src/schema/safe/rabin.rs :: pub\(crate\) fn finish\(self\) -> \[u8; 8\]
//@ anchor: serde_avro_fast/src/schema/safe/rabin.rs :: const FP_TABLE: &\[u64; 256\]
//@ include: spec

//@ harness: c08_rabin_write_one_byte
//@   props: C08
//@   tier: quick
//@   kind: complete
//@   fn: schema::safe::rabin::Rabin::write
//@   domain: every (state: u64, byte: u8) pair - 2^72 cases, no bound (the only loop is the oracle's 8 bit steps)
//@   post: self.result' == spec_crc_step(self.result, byte)  (subsumes all 256 FP_TABLE entries)
#[kani::proof]
#[kani::unwind(10)]
fn c08_rabin_write_one_byte() {
	let st: u64 = kani::any();
	let b: u8 = kani::any();
	let mut r = Rabin { result: st };
	r.write(&[b]);
	kani::cover!(b == 0xff && st == 0, "COV reach");
	assert!(r.result == spec_crc_step(st, b), "OBL C08.rabin.step_equals_bitwise_crc64_avro");
}

//@ harness: c08_rabin_write_concat
//@   props: C08
//@   tier: quick
//@   kind: complete
//@   fn: schema::safe::rabin::Rabin::write
//@   domain: every state, every 2 bytes, written as one call or as two calls
//@   post: write(a ++ b) == write(a); write(b)  and == fold of spec_crc_step (streaming in pieces is sound)
#[kani::proof]
#[kani::unwind(10)]
fn c08_rabin_write_concat() {
	let st: u64 = kani::any();
	let d: [u8; 2] = kani::any();
	let mut r1 = Rabin { result: st };
	r1.write(&d);
	let mut r2 = Rabin { result: st };
	r2.write(&d[..1]);
	r2.write(&d[1..]);
	let mut r3 = Rabin { result: st };
	r3.write(&[]);
	assert!(r3.result == st, "OBL C08.rabin.empty_write_is_identity");
	assert!(r1.result == r2.result, "OBL C08.rabin.write_is_a_fold");
	assert!(r1.result == spec_crc_step(spec_crc_step(st, d[0]), d[1]), "OBL C08.rabin.fold_equals_spec");
}

//@ harness: c08_rabin_init_finish
//@   props: C08
//@   tier: quick
//@   kind: complete
//@   fn: schema::safe::rabin::Rabin::finish
//@   domain: every state
//@   post: default() starts at EMPTY64 = 0xc15d213aa4d7a795; finish() is the little-endian byte order; fmt::Write::write_str feeds the bytes
#[kani::proof]
#[kani::unwind(10)]
fn c08_rabin_init_finish() {
	let st: u64 = kani::any();
	assert!(Rabin::default().result == SPEC_EMPTY64, "OBL C08.rabin.initial_state");
	let out = Rabin { result: st }.finish();
	let mut i = 0;
	while i < 8 {
		assert!(out[i] == ((st >> (8 * i)) & 0xff) as u8, "OBL C08.rabin.finish_little_endian");
		i += 1;
	}
	let mut r = Rabin { result: st };
	let _ = <Rabin as std::fmt::Write>::write_str(&mut r, "a");
	assert!(r.result == spec_crc_step(st, 0x61), "OBL C08.rabin.write_str_feeds_bytes");
}

//@ harness: c08_rabin_canary
//@   props: C08
//@   tier: quick
//@   kind: canary
#[kani::proof]
#[kani::unwind(10)]
fn c08_rabin_canary() {
	let st: u64 = kani::any();
	let b: u8 = kani::any();
	let mut r = Rabin { result: st };
	r.write(&[b]);
	assert!(r.result != spec_crc_step(st, b), "OBL canary");
}
