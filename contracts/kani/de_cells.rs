//@ unit: de_cells
//@ inject-into: serde_avro_fast/src/de/deserializer/mod.rs
//@ requires-unit: schema_helper
//@ requires-unit: depth
//@ anchor: serde_avro_fast/src/de/deserializer/mod.rs :: fn deserialize_any<V>\(self, visitor: V\)
//@ anchor: serde_avro_fast/src/de/deserializer/mod.rs :: fn deserialize_option<V>\(self, visitor: V\)
//@ anchor: serde_avro_fast/src/de/deserializer/mod.rs :: fn deserialize_ignored_any<V>\(self, visitor: V\)
//@ anchor: serde_avro_fast/src/de/deserializer/types/boolean.rs :: pub\(in super::super\) fn read_bool<'de, R, V>\(
//@ anchor: serde_avro_fast/src/de/deserializer/types/length_delimited.rs :: pub\(super\) fn read_len<'de, R>\(
//@ anchor: serde_avro_fast/src/de/deserializer/types/enums.rs :: pub\(in super::super\) fn read_enum_as_str<'de, R, V>\(
//@ anchor: serde_avro_fast/src/de/deserializer/types/union.rs :: pub\(in super::super\) fn read_union_discriminant<'de, 's, R>\(
//@ anchor: serde_avro_fast/src/de/deserializer/types/decimal.rs :: pub\(in super::super\) fn read_decimal<'de, R, V>\(
//@ include: spec
//@ include: common

// ---------------------------------------------------------------------------------------------
// Decoder contracts (C03 conformance, C04 totality/limits, C12 skip == read, C01 decode half):
// the real `impl Deserializer for DatumDeserializer` on static nodes, over every byte string the
// node kind can examine; oracle = executable specification.
// ---------------------------------------------------------------------------------------------

use crate::schema::self_referential::__verif_schema_helper::{
	decimal_bytes_node, decimal_fixed_node, fixed_node, TWO_SYMBOLS, UNION_LONG_NULL, UNION_NULL_LONG,
	UNION_NULL_LONG_DOUBLE, N_DOUBLE, N_LONG, N_NULL,
};
use crate::schema::self_referential::NodeRef;

fn state_over<'a>(node: &'static SchemaNode<'static>, bytes: &'a [u8]) -> DeserializerState<'static, SliceRead<'a>> {
	DeserializerState::from_schema_node(SliceRead::new(bytes), NodeRef::from_static(node))
}
fn remaining<R: std::io::BufRead>(r: &mut R) -> usize {
	match r.fill_buf() {
		Ok(b) => b.len(),
		Err(_) => usize::MAX,
	}
}

//@ harness: c03_bool
//@   props: C03, C04, C01
//@   tier: quick
//@   kind: complete
//@   fn: de::deserializer::types::boolean::read_bool via <bool as Deserialize>::deserialize(DatumDeserializer) on node boolean
//@   domain: empty input and every one of the 256 byte values (followed by a symbolic trailing byte)
//@   post: 0 => false, 1 => true, anything else => Err, empty => Err; exactly one byte consumed on Ok
#[kani::proof]
#[kani::unwind(6)]
#[kani::stub(alloc::fmt::format, stub_format)]
fn c03_bool() {
	static NODE: SchemaNode<'static> = SchemaNode::Boolean;
	let buf: [u8; 2] = kani::any();
	let len: usize = kani::any();
	kani::assume(len <= 2);
	let input = &buf[..len];
	let mut st = state_over(&NODE, input);
	let r = <bool as Deserialize>::deserialize(st.deserializer());
	let consumed = len - remaining(&mut st.reader);
	if len == 0 {
		assert!(r.is_err(), "OBL C03.bool.empty_input_is_err");
	} else if buf[0] == 0 {
		assert!(matches!(r, Ok(false)) && consumed == 1, "OBL C03.bool.zero_is_false");
	} else if buf[0] == 1 {
		assert!(matches!(r, Ok(true)) && consumed == 1, "OBL C03.bool.one_is_true");
	} else {
		kani::cover!(buf[0] == 2, "COV byte 2");
		assert!(r.is_err(), "OBL C03.bool.other_byte_is_err");
	}
	std::mem::forget(r);
}

macro_rules! typed_varint_node {
	($name:ident, $node:expr, $t:ty, $spec:ident, $obl:literal) => {
		#[kani::proof]
		#[kani::unwind(13)]
		#[kani::stub(alloc::fmt::format, stub_format)]
		fn $name() {
			static NODE: SchemaNode<'static> = $node;
			let buf: [u8; 11] = kani::any();
			let len: usize = kani::any();
			kani::assume(len <= 11);
			let input = &buf[..len];
			let mut st = state_over(&NODE, input);
			let r = <$t as Deserialize>::deserialize(st.deserializer());
			let consumed = len - remaining(&mut st.reader);
			match $spec(input) {
				Some((v, n)) => {
					kani::cover!(v == <$t>::MIN, "COV minimum value");
					kani::cover!(v == <$t>::MAX, "COV maximum value");
					assert!(matches!(r, Ok(x) if x == v), $obl);
					assert!(consumed == n, "OBL C03.varint_node.consumes_exactly_the_varint");
				}
				None => assert!(r.is_err(), "OBL C03.varint_node.invalid_or_truncated_is_err"),
			}
			std::mem::forget(r);
		}
	};
}

//@ harness: c03_int_node
//@   props: C03, C04, C01
//@   tier: quick
//@   kind: complete
//@   fn: de::deserializer::DatumDeserializer::deserialize_any (node int) via <i32 as Deserialize>
//@   domain: every byte string of length 0..=11
//@   post: Ok(v) iff the prefix is a varint denoting an i32-range value v (per spec zig-zag); exactly its bytes consumed; else Err
typed_varint_node!(c03_int_node, SchemaNode::Int, i32, spec_dec_int, "OBL C03.int.value_is_spec_value");

//@ harness: c03_long_node
//@   props: C03, C04, C01
//@   tier: quick
//@   kind: complete
//@   fn: de::deserializer::DatumDeserializer::deserialize_i64 (node long) via <i64 as Deserialize>
//@   domain: every byte string of length 0..=11
//@   post: Ok(v) iff the prefix is a valid varint, v its zig-zag value (incl. i64::MIN/MAX); exactly its bytes consumed; else Err
typed_varint_node!(c03_long_node, SchemaNode::Long, i64, spec_dec_long, "OBL C03.long.value_is_spec_value");

//@ harness: c03_date_node
//@   props: C03, C01
//@   tier: thorough
//@   kind: complete
//@   fn: de::deserializer::DatumDeserializer::deserialize_any (node date)
//@   domain: every byte string of length 0..=11
//@   post: as node int
typed_varint_node!(c03_date_node, SchemaNode::Date, i32, spec_dec_int, "OBL C03.date.value_is_spec_value");

//@ harness: c03_time_millis_node
//@   props: C03, C01
//@   tier: thorough
//@   kind: complete
//@   fn: de::deserializer::DatumDeserializer::deserialize_any (node time-millis)
//@   domain: every byte string of length 0..=11
//@   post: as node int
typed_varint_node!(c03_time_millis_node, SchemaNode::TimeMillis, i32, spec_dec_int, "OBL C03.time_millis.value_is_spec_value");

//@ harness: c03_time_micros_node
//@   props: C03, C01
//@   tier: thorough
//@   kind: complete
//@   fn: de::deserializer::DatumDeserializer::deserialize_i64 -> deserialize_any (node time-micros)
//@   domain: every byte string of length 0..=11
//@   post: as node long
typed_varint_node!(c03_time_micros_node, SchemaNode::TimeMicros, i64, spec_dec_long, "OBL C03.time_micros.value_is_spec_value");

//@ harness: c03_timestamp_millis_node
//@   props: C03, C01
//@   tier: thorough
//@   kind: complete
//@   fn: de::deserializer::DatumDeserializer::deserialize_any (node timestamp-millis)
//@   domain: every byte string of length 0..=11
//@   post: as node long
typed_varint_node!(c03_timestamp_millis_node, SchemaNode::TimestampMillis, i64, spec_dec_long, "OBL C03.timestamp_millis.value_is_spec_value");

//@ harness: c03_timestamp_micros_node
//@   props: C03, C01
//@   tier: thorough
//@   kind: complete
//@   fn: de::deserializer::DatumDeserializer::deserialize_any (node timestamp-micros)
//@   domain: every byte string of length 0..=11
//@   post: as node long
typed_varint_node!(c03_timestamp_micros_node, SchemaNode::TimestampMicros, i64, spec_dec_long, "OBL C03.timestamp_micros.value_is_spec_value");

//@ harness: c03_float_double_nodes
//@   props: C03, C04, C01
//@   tier: quick
//@   kind: complete
//@   fn: de::deserializer::DatumDeserializer::{deserialize_any (float), deserialize_f64 (double)}
//@   domain: every input of length 0..=9
//@   post: float: Ok iff >= 4 bytes, bit pattern == little-endian of the first 4 (NaN payloads preserved), 4 consumed; double likewise with 8; shorter => Err
#[kani::proof]
#[kani::unwind(12)]
#[kani::stub(alloc::fmt::format, stub_format)]
fn c03_float_double_nodes() {
	static F: SchemaNode<'static> = SchemaNode::Float;
	static D: SchemaNode<'static> = SchemaNode::Double;
	let buf: [u8; 9] = kani::any();
	let len: usize = kani::any();
	kani::assume(len <= 9);
	let input = &buf[..len];
	let mut st = state_over(&F, input);
	let r = <f32 as Deserialize>::deserialize(st.deserializer());
	let consumed = len - remaining(&mut st.reader);
	if len >= 4 {
		let bits = (buf[0] as u32) + ((buf[1] as u32) << 8) + ((buf[2] as u32) << 16) + ((buf[3] as u32) << 24);
		assert!(matches!(r, Ok(x) if x.to_bits() == bits) && consumed == 4, "OBL C03.float.exact_bits_little_endian");
	} else {
		assert!(r.is_err(), "OBL C03.float.premature_end_is_err");
	}
	std::mem::forget(r);
	let mut st = state_over(&D, input);
	let r = <f64 as Deserialize>::deserialize(st.deserializer());
	let consumed = len - remaining(&mut st.reader);
	if len >= 8 {
		let mut bits: u64 = 0;
		let mut i = 0;
		while i < 8 {
			bits += (buf[i] as u64) << (8 * i);
			i += 1;
		}
		assert!(matches!(r, Ok(x) if x.to_bits() == bits) && consumed == 8, "OBL C03.double.exact_bits_little_endian");
	} else {
		assert!(r.is_err(), "OBL C03.double.premature_end_is_err");
	}
	std::mem::forget(r);
}

//@ harness: c03_bytes_borrowed
//@   props: C03, C04, C01
//@   tier: quick
//@   kind: bounded(input length <= 6; the length prefix itself ranges over all one..six-byte varints incl. negative and huge)
//@   fn: de::deserializer::types::length_delimited::{read_len, read_length_delimited} + SliceRead::read_slice via <&[u8] as Deserialize> (node bytes)
//@   domain: every byte string of length 0..=6
//@   post: Ok(b) iff prefix is a valid long L with 0 <= L <= bytes available; b == the next L bytes AND b points into the input (zero-copy borrow); negative length, length beyond input, bad varint => Err; no allocation sized by L
#[kani::proof]
#[kani::unwind(9)]
#[kani::stub(alloc::fmt::format, stub_format)]
fn c03_bytes_borrowed() {
	static NODE: SchemaNode<'static> = SchemaNode::Bytes;
	let buf: [u8; 6] = kani::any();
	let len: usize = kani::any();
	kani::assume(len <= 6);
	let input = &buf[..len];
	let mut st = state_over(&NODE, input);
	let r = <&[u8] as Deserialize>::deserialize(st.deserializer());
	let consumed = len - remaining(&mut st.reader);
	match spec_dec_long(input) {
		Some((l, n)) if l >= 0 && (l as u64) <= (len - n) as u64 => {
			let l = l as usize;
			kani::cover!(l == 3, "COV three payload bytes");
			match &r {
				Ok(b) => {
					assert!(b.len() == l && b[..] == input[n..n + l], "OBL C03.bytes.payload_is_next_len_bytes");
					assert!(b.as_ptr() == input[n..].as_ptr(), "OBL C01.bytes.borrowed_from_input_slice");
					assert!(consumed == n + l, "OBL C03.bytes.consumes_prefix_plus_payload");
				}
				Err(_) => assert!(false, "OBL C03.bytes.valid_encoding_must_decode"),
			}
		}
		Some((l, _)) => {
			kani::cover!(l < 0, "COV negative length");
			kani::cover!(l > (1i64 << 33), "COV hostile length");
			assert!(r.is_err(), "OBL C03.bytes.negative_or_unavailable_length_is_err");
		}
		None => assert!(r.is_err(), "OBL C03.bytes.bad_length_varint_is_err"),
	}
	std::mem::forget(r);
}

//@ harness: c03_bytes_borrowed_9
//@   props: C03, C04, C01
//@   tier: thorough
//@   kind: bounded(input length <= 9; the length prefix itself ranges over all one..six-byte varints incl. negative and huge)
//@   fn: de::deserializer::types::length_delimited::{read_len, read_length_delimited} + SliceRead::read_slice via <&[u8] as Deserialize> (node bytes)
//@   domain: every byte string of length 0..=9
//@   post: Ok(b) iff prefix is a valid long L with 0 <= L <= bytes available; b == the next L bytes AND b points into the input (zero-copy borrow); negative length, length beyond input, bad varint => Err; no allocation sized by L
#[kani::proof]
#[kani::unwind(12)]
#[kani::stub(alloc::fmt::format, stub_format)]
fn c03_bytes_borrowed_9() {
	static NODE: SchemaNode<'static> = SchemaNode::Bytes;
	let buf: [u8; 9] = kani::any();
	let len: usize = kani::any();
	kani::assume(len <= 9);
	let input = &buf[..len];
	let mut st = state_over(&NODE, input);
	let r = <&[u8] as Deserialize>::deserialize(st.deserializer());
	let consumed = len - remaining(&mut st.reader);
	match spec_dec_long(input) {
		Some((l, n)) if l >= 0 && (l as u64) <= (len - n) as u64 => {
			let l = l as usize;
			kani::cover!(l == 3, "COV three payload bytes");
			match &r {
				Ok(b) => {
					assert!(b.len() == l && b[..] == input[n..n + l], "OBL C03.bytes.payload_is_next_len_bytes");
					assert!(b.as_ptr() == input[n..].as_ptr(), "OBL C01.bytes.borrowed_from_input_slice");
					assert!(consumed == n + l, "OBL C03.bytes.consumes_prefix_plus_payload");
				}
				Err(_) => assert!(false, "OBL C03.bytes.valid_encoding_must_decode"),
			}
		}
		Some((l, _)) => {
			kani::cover!(l < 0, "COV negative length");
			kani::cover!(l > (1i64 << 33), "COV hostile length");
			assert!(r.is_err(), "OBL C03.bytes.negative_or_unavailable_length_is_err");
		}
		None => assert!(r.is_err(), "OBL C03.bytes.bad_length_varint_is_err"),
	}
	std::mem::forget(r);
}

//@ harness: c03_string_borrowed
//@   props: C03, C04, C01
//@   tier: quick
//@   kind: bounded(input length <= 5)
//@   fn: de::deserializer::types::length_delimited::{read_length_delimited, StringVisitor, parse_str} via <&str as Deserialize> (node string)
//@   domain: every byte string of length 0..=5
//@   post: Ok(s) iff valid length prefix, payload available AND payload is valid UTF-8 (oracle: core::str::from_utf8, trusted std); s borrows from the input; invalid UTF-8 => Err
#[kani::proof]
#[kani::unwind(8)]
#[kani::stub(alloc::fmt::format, stub_format)]
fn c03_string_borrowed() {
	static NODE: SchemaNode<'static> = SchemaNode::String;
	let buf: [u8; 5] = kani::any();
	let len: usize = kani::any();
	kani::assume(len <= 5);
	let input = &buf[..len];
	let mut st = state_over(&NODE, input);
	let r = <&str as Deserialize>::deserialize(st.deserializer());
	match spec_dec_long(input) {
		Some((l, n)) if l >= 0 && (l as u64) <= (len - n) as u64 => {
			let l = l as usize;
			let payload = &input[n..n + l];
			let valid = std::str::from_utf8(payload).is_ok();
			kani::cover!(!valid, "COV invalid utf-8 payload");
			kani::cover!(valid && l == 3, "COV valid three-byte payload");
			match &r {
				Ok(s) => {
					assert!(valid, "OBL C03.string.invalid_utf8_must_be_err");
					assert!(s.as_bytes() == payload, "OBL C03.string.payload_is_next_len_bytes");
					assert!(s.as_ptr() == payload.as_ptr(), "OBL C01.string.borrowed_from_input_slice");
				}
				Err(_) => assert!(!valid, "OBL C03.string.valid_encoding_must_decode"),
			}
		}
		_ => assert!(r.is_err(), "OBL C03.string.bad_length_is_err"),
	}
	std::mem::forget(r);
}

//@ harness: c03_string_borrowed_7
//@   props: C03, C04, C01
//@   tier: thorough
//@   kind: bounded(input length <= 7)
//@   fn: de::deserializer::types::length_delimited::{read_length_delimited, StringVisitor, parse_str} via <&str as Deserialize> (node string)
//@   domain: every byte string of length 0..=7
//@   post: Ok(s) iff valid length prefix, payload available AND payload is valid UTF-8 (oracle: core::str::from_utf8, trusted std); s borrows from the input; invalid UTF-8 => Err
#[kani::proof]
#[kani::unwind(10)]
#[kani::stub(alloc::fmt::format, stub_format)]
fn c03_string_borrowed_7() {
	static NODE: SchemaNode<'static> = SchemaNode::String;
	let buf: [u8; 7] = kani::any();
	let len: usize = kani::any();
	kani::assume(len <= 7);
	let input = &buf[..len];
	let mut st = state_over(&NODE, input);
	let r = <&str as Deserialize>::deserialize(st.deserializer());
	match spec_dec_long(input) {
		Some((l, n)) if l >= 0 && (l as u64) <= (len - n) as u64 => {
			let l = l as usize;
			let payload = &input[n..n + l];
			let valid = std::str::from_utf8(payload).is_ok();
			kani::cover!(!valid, "COV invalid utf-8 payload");
			kani::cover!(valid && l == 3, "COV valid three-byte payload");
			match &r {
				Ok(s) => {
					assert!(valid, "OBL C03.string.invalid_utf8_must_be_err");
					assert!(s.as_bytes() == payload, "OBL C03.string.payload_is_next_len_bytes");
					assert!(s.as_ptr() == payload.as_ptr(), "OBL C01.string.borrowed_from_input_slice");
				}
				Err(_) => assert!(!valid, "OBL C03.string.valid_encoding_must_decode"),
			}
		}
		_ => assert!(r.is_err(), "OBL C03.string.bad_length_is_err"),
	}
	std::mem::forget(r);
}

//@ harness: c03_fixed_and_duration
//@   props: C03, C04, C01
//@   tier: quick
//@   kind: complete
//@   fn: de::deserializer::DatumDeserializer::{deserialize_bytes, deserialize_tuple} (nodes fixed(3), duration)
//@   domain: fixed(3): every input of length 0..=4; duration: every input of length 0..=13 read as (u32,u32,u32) and as raw bytes
//@   post: fixed: Ok iff >= 3 bytes, exactly the first 3, borrowed; duration: Ok iff >= 12 bytes, three little-endian u32 in order months, days, millis; raw form = the 12 bytes; shorter => Err
#[kani::proof]
#[kani::unwind(16)]
#[kani::stub(alloc::fmt::format, stub_format)]
fn c03_fixed_and_duration() {
	static FX: SchemaNode<'static> = fixed_node(3);
	static DU: SchemaNode<'static> = SchemaNode::Duration;
	let buf: [u8; 13] = kani::any();
	let len: usize = kani::any();
	kani::assume(len <= 13);
	let input = &buf[..len];
	let mut st = state_over(&FX, input);
	let r = <&[u8] as Deserialize>::deserialize(st.deserializer());
	if len >= 3 {
		assert!(matches!(&r, Ok(b) if b.len() == 3 && b[..] == buf[..3] && b.as_ptr() == input.as_ptr()), "OBL C03.fixed.exactly_size_bytes_borrowed");
		assert!(len - remaining(&mut st.reader) == 3, "OBL C03.fixed.consumes_size");
	} else {
		assert!(r.is_err(), "OBL C03.fixed.premature_end_is_err");
	}
	std::mem::forget(r);
	let mut st = state_over(&DU, input);
	let r = <(u32, u32, u32) as Deserialize>::deserialize(st.deserializer());
	if len >= 12 {
		let le = |o: usize| (buf[o] as u32) + ((buf[o + 1] as u32) << 8) + ((buf[o + 2] as u32) << 16) + ((buf[o + 3] as u32) << 24);
		assert!(matches!(r, Ok((m, d, ms)) if m == le(0) && d == le(4) && ms == le(8)), "OBL C03.duration.three_le_u32_months_days_millis");
		assert!(len - remaining(&mut st.reader) == 12, "OBL C03.duration.consumes_12");
	} else {
		assert!(r.is_err(), "OBL C03.duration.premature_end_is_err");
	}
	std::mem::forget(r);
	let mut st = state_over(&DU, input);
	let r = <&[u8] as Deserialize>::deserialize(st.deserializer());
	if len >= 12 {
		assert!(matches!(&r, Ok(b) if b.len() == 12 && b[..] == buf[..12]), "OBL C03.duration.raw_12_bytes");
	} else {
		assert!(r.is_err(), "OBL C03.duration.raw_premature_end_is_err");
	}
	std::mem::forget(r);
}

/// Visitor that records which symbol / variant it was shown (first byte of the str)
struct FirstByteOfStr;
impl<'de> Visitor<'de> for FirstByteOfStr {
	type Value = (usize, u8);
	fn expecting(&self, _f: &mut std::fmt::Formatter) -> std::fmt::Result {
		Ok(())
	}
	fn visit_str<E: Error>(self, v: &str) -> Result<Self::Value, E> {
		Ok((v.len(), if v.is_empty() { 0 } else { v.as_bytes()[0] }))
	}
}

//@ harness: c03_enum_index
//@   props: C03, C04, C01
//@   tier: quick
//@   kind: complete
//@   fn: de::deserializer::types::enums::read_enum_as_str + discriminant::read_discriminant
//@   domain: symbols ["a","b"]; every byte string of length 0..=11 as the discriminant varint
//@   post: index 0 => "a", 1 => "b"; negative, >= 2, malformed => Err (never a fabricated symbol, never an out-of-bounds read)
#[kani::proof]
#[kani::unwind(13)]
#[kani::stub(alloc::fmt::format, stub_format)]
fn c03_enum_index() {
	let buf: [u8; 11] = kani::any();
	let len: usize = kani::any();
	kani::assume(len <= 11);
	let input = &buf[..len];
	let mut st = state_over(&N_NULL, input);
	let r = read_enum_as_str(&mut st, &TWO_SYMBOLS, FirstByteOfStr);
	match spec_dec_long(input) {
		Some((0, n)) => assert!(matches!(r, Ok((1, b'a'))) && len - remaining(&mut st.reader) == n, "OBL C03.enum.index_0_is_first_symbol"),
		Some((1, n)) => assert!(matches!(r, Ok((1, b'b'))) && len - remaining(&mut st.reader) == n, "OBL C03.enum.index_1_is_second_symbol"),
		Some((d, _)) => {
			kani::cover!(d == -1, "COV negative index");
			kani::cover!(d == 2, "COV first index past the end");
			assert!(r.is_err(), "OBL C03.enum.index_outside_schema_is_err");
		}
		None => assert!(r.is_err(), "OBL C03.enum.bad_varint_is_err"),
	}
	std::mem::forget(r);
}

fn union_of(node: &'static SchemaNode<'static>) -> &'static Union<'static> {
	match node {
		SchemaNode::Union(u) => u,
		_ => unreachable!(),
	}
}

//@ harness: c03_union_index
//@   props: C03, C04, C01
//@   tier: quick
//@   kind: complete
//@   fn: de::deserializer::types::union::read_union_discriminant
//@   domain: union ["null","long","double"]; every byte string of length 0..=11 as the discriminant varint
//@   post: index i in 0..3 => exactly the i-th branch node (pointer-equal); negative, >= 3, malformed => Err
#[kani::proof]
#[kani::unwind(13)]
#[kani::stub(alloc::fmt::format, stub_format)]
fn c03_union_index() {
	let buf: [u8; 11] = kani::any();
	let len: usize = kani::any();
	kani::assume(len <= 11);
	let input = &buf[..len];
	let mut st = state_over(&N_NULL, input);
	let r = read_union_discriminant(&mut st, union_of(&UNION_NULL_LONG_DOUBLE));
	match spec_dec_long(input) {
		Some((d, n)) if d >= 0 && d < 3 => {
			let want: *const SchemaNode<'static> = if d == 0 { &N_NULL } else if d == 1 { &N_LONG } else { &N_DOUBLE };
			kani::cover!(d == 2, "COV last branch");
			assert!(matches!(r, Ok(node) if std::ptr::eq(node, want)), "OBL C03.union.index_selects_that_branch");
			assert!(len - remaining(&mut st.reader) == n, "OBL C03.union.consumes_only_the_discriminant");
		}
		Some((d, _)) => {
			kani::cover!(d == 3, "COV first index past the end");
			kani::cover!(d < 0, "COV negative index");
			assert!(r.is_err(), "OBL C03.union.index_outside_schema_is_err");
		}
		None => assert!(r.is_err(), "OBL C03.union.bad_varint_is_err"),
	}
	std::mem::forget(r);
}

/// Visitor for `deserialize_option` that does NOT run the child deserializer but looks at it:
/// which node it is positioned on and with what depth budget.  (Modular: what the child then
/// decodes is the contract of that node kind.)  `D` is generic, so the peek is a size-checked
/// reinterpretation of `D` as the one concrete type the caller can pass here - harness only.
enum OptSeen {
	None,
	Some { node: *const SchemaNode<'static>, depth: usize },
	SomeOther,
}
struct OptProbe;
impl<'de> Visitor<'de> for OptProbe {
	type Value = OptSeen;
	fn expecting(&self, _f: &mut std::fmt::Formatter) -> std::fmt::Result {
		Ok(())
	}
	fn visit_none<E: Error>(self) -> Result<OptSeen, E> {
		Ok(OptSeen::None)
	}
	fn visit_some<D: Deserializer<'de>>(self, d: D) -> Result<OptSeen, D::Error> {
		type Concrete<'r, 'a> = DatumDeserializer<'r, 'static, SliceRead<'a>>;
		let seen = if std::any::type_name::<D>().len() == std::any::type_name::<Concrete<'static, 'static>>().len()
			&& std::mem::size_of::<D>() == std::mem::size_of::<Concrete<'static, 'static>>()
		{
			// SAFETY (harness only): same type up to lifetimes
			let dd: &Concrete<'_, '_> = unsafe { &*(&d as *const D as *const Concrete<'_, '_>) };
			OptSeen::Some { node: dd.schema_node as *const _, depth: dd.allowed_depth.budget() }
		} else {
			OptSeen::SomeOther
		};
		std::mem::forget(d);
		Ok(seen)
	}
}

macro_rules! option_harness {
	($name:ident, $node:expr, $null_idx:expr) => {
		#[kani::proof]
		#[kani::unwind(13)]
		#[kani::stub(alloc::fmt::format, stub_format)]
		fn $name() {
			let buf: [u8; 11] = kani::any();
			let len: usize = kani::any();
			kani::assume(len <= 11);
			let input = &buf[..len];
			let budget: usize = kani::any();
			let mut st = state_over($node, input);
			st.config.allowed_depth = budget;
			let r = st.deserializer().deserialize_option(OptProbe);
			let consumed = len - remaining(&mut st.reader);
			match spec_dec_long(input) {
				None => assert!(r.is_err(), "OBL C03.option.bad_discriminant_is_err"),
				Some((d, n)) => {
					if d == $null_idx {
						assert!(matches!(r, Ok(OptSeen::None)) && consumed == n, "OBL C03.option.null_branch_is_none");
					} else if d == 1 - $null_idx {
						if budget == 0 {
							assert!(r.is_err(), "OBL C04.depth.exhausted_budget_is_err_at_option_descent");
						} else {
							kani::cover!(budget == 1, "COV last level of budget");
							assert!(
								matches!(r, Ok(OptSeen::Some { node, depth }) if std::ptr::eq(node, &N_LONG) && depth == budget - 1),
								"OBL C03.option.some_is_positioned_on_the_other_branch_with_smaller_budget"
							);
							assert!(consumed == n, "OBL C03.option.only_the_discriminant_is_consumed_before_the_payload");
						}
					} else {
						kani::cover!(d == 2, "COV first index past the end");
						kani::cover!(d < 0, "COV negative index");
						assert!(r.is_err(), "OBL C03.option.index_outside_schema_is_err");
					}
				}
			}
			std::mem::forget(r);
		}
	};
}

//@ harness: c03_option_null_first
//@   props: C03, C01, C04
//@   tier: quick
//@   kind: complete
//@   fn: de::deserializer::DatumDeserializer::deserialize_option (union ["null","long"])
//@   domain: every byte string of length 0..=11 as discriminant; every depth budget (usize)
//@   post: discriminant of the null branch => visit_none; of the long branch => visit_some with a deserializer positioned on the long node, budget-1 (Err at budget 0), nothing but the discriminant consumed; any other index / bad varint => Err
option_harness!(c03_option_null_first, &UNION_NULL_LONG, 0);

//@ harness: c03_option_null_second
//@   props: C03, C01
//@   tier: quick
//@   kind: complete
//@   fn: de::deserializer::DatumDeserializer::deserialize_option (union ["long","null"])
//@   domain: as above with the branches swapped
//@   post: as above (the Option mapping follows the schema's branch order, it does not assume null first)
option_harness!(c03_option_null_second, &UNION_LONG_NULL, 1);

// ---- C12: skipping == reading

/// consuming visitor for deserialize_any: accepts every primitive the nodes below produce
struct Swallow;
impl<'de> Visitor<'de> for Swallow {
	type Value = ();
	fn expecting(&self, _f: &mut std::fmt::Formatter) -> std::fmt::Result {
		Ok(())
	}
	fn visit_unit<E: Error>(self) -> Result<(), E> { Ok(()) }
	fn visit_bool<E: Error>(self, _v: bool) -> Result<(), E> { Ok(()) }
	fn visit_i32<E: Error>(self, _v: i32) -> Result<(), E> { Ok(()) }
	fn visit_i64<E: Error>(self, _v: i64) -> Result<(), E> { Ok(()) }
	fn visit_u64<E: Error>(self, _v: u64) -> Result<(), E> { Ok(()) }
	fn visit_f32<E: Error>(self, _v: f32) -> Result<(), E> { Ok(()) }
	fn visit_f64<E: Error>(self, _v: f64) -> Result<(), E> { Ok(()) }
	fn visit_str<E: Error>(self, _v: &str) -> Result<(), E> { Ok(()) }
	fn visit_bytes<E: Error>(self, _v: &[u8]) -> Result<(), E> { Ok(()) }
	fn visit_map<A: MapAccess<'de>>(self, mut map: A) -> Result<(), A::Error> {
		while let Some(_k) = map.next_key::<IgnoredAny>()? {
			map.next_value::<IgnoredAny>()?;
		}
		Ok(())
	}
}

macro_rules! skip_equals_read {
	($node:expr, $input:expr, $len:expr) => {{
		let mut st = state_over($node, $input);
		let a = st.deserializer().deserialize_any(Swallow);
		let ca = $len - remaining(&mut st.reader);
		let mut st2 = state_over($node, $input);
		let b = st2.deserializer().deserialize_ignored_any(IgnoredAny);
		let cb = $len - remaining(&mut st2.reader);
		if a.is_ok() {
			assert!(b.is_ok(), "OBL C12.skip.valid_encoding_must_be_skippable");
			assert!(ca == cb, "OBL C12.skip.consumes_exactly_what_reading_consumes");
		}
		std::mem::forget(a);
		std::mem::forget(b);
	}};
}

//@ harness: c12_skip_varint_nodes
//@   props: C12
//@   tier: quick
//@   kind: complete
//@   fn: de::deserializer::DatumDeserializer::deserialize_ignored_any (nodes int, long: the "skip zig-zag, read as u32/u64" fast paths) vs deserialize_any
//@   domain: every byte string of length 0..=11 (so every valid int/long encoding incl. i32::MIN/i64::MIN whose zig-zag forms are u32::MAX/u64::MAX)
//@   post: whenever reading succeeds, ignoring succeeds and advances the input by exactly the same number of bytes
#[kani::proof]
#[kani::unwind(13)]
#[kani::stub(alloc::fmt::format, stub_format)]
fn c12_skip_varint_nodes() {
	static I: SchemaNode<'static> = SchemaNode::Int;
	static L: SchemaNode<'static> = SchemaNode::Long;
	let buf: [u8; 11] = kani::any();
	let len: usize = kani::any();
	kani::assume(len <= 11);
	let input = &buf[..len];
	kani::cover!(matches!(spec_dec_int(input), Some((i32::MIN, _))), "COV i32::MIN");
	kani::cover!(matches!(spec_dec_long(input), Some((i64::MIN, _))), "COV i64::MIN");
	skip_equals_read!(&I, input, len);
	skip_equals_read!(&L, input, len);
}

//@ harness: c12_skip_fixed_size_nodes
//@   props: C12
//@   tier: quick
//@   kind: complete
//@   fn: de::deserializer::DatumDeserializer::deserialize_ignored_any vs deserialize_any (nodes null, boolean, float, double)
//@   domain: every input of length 0..=9
//@   post: whenever reading succeeds, ignoring succeeds and consumes the same number of bytes
#[kani::proof]
#[kani::unwind(12)]
#[kani::stub(alloc::fmt::format, stub_format)]
fn c12_skip_fixed_size_nodes() {
	static NU: SchemaNode<'static> = SchemaNode::Null;
	static BO: SchemaNode<'static> = SchemaNode::Boolean;
	static FL: SchemaNode<'static> = SchemaNode::Float;
	static DO: SchemaNode<'static> = SchemaNode::Double;
	let buf: [u8; 9] = kani::any();
	let len: usize = kani::any();
	kani::assume(len <= 9);
	let input = &buf[..len];
	skip_equals_read!(&NU, input, len);
	skip_equals_read!(&BO, input, len);
	skip_equals_read!(&FL, input, len);
	skip_equals_read!(&DO, input, len);
}

//@ harness: c12_skip_fixed_and_duration_nodes
//@   props: C12
//@   tier: quick
//@   kind: complete
//@   fn: de::deserializer::DatumDeserializer::deserialize_ignored_any vs deserialize_any (nodes duration, fixed(3))
//@   domain: every input of length 0..=13
//@   post: whenever reading succeeds, ignoring succeeds and consumes the same number of bytes (12 resp. 3)
#[kani::proof]
#[kani::unwind(16)]
#[kani::stub(alloc::fmt::format, stub_format)]
fn c12_skip_fixed_and_duration_nodes() {
	static DU: SchemaNode<'static> = SchemaNode::Duration;
	static FX: SchemaNode<'static> = fixed_node(3);
	let buf: [u8; 13] = kani::any();
	let len: usize = kani::any();
	kani::assume(len <= 13);
	let input = &buf[..len];
	skip_equals_read!(&DU, input, len);
	skip_equals_read!(&FX, input, len);
}

//@ harness: c12_skip_logical_varint_nodes
//@   props: C12
//@   tier: quick
//@   kind: complete
//@   fn: de::deserializer::DatumDeserializer::deserialize_ignored_any vs deserialize_any (every int- and long-backed logical type: date, time-millis, time-micros, timestamp-millis, timestamp-micros)
//@   domain: every input of length 0..=11
//@   post: whenever reading succeeds, ignoring succeeds and consumes the same number of bytes
#[kani::proof]
#[kani::unwind(13)]
#[kani::stub(alloc::fmt::format, stub_format)]
fn c12_skip_logical_varint_nodes() {
	static DA: SchemaNode<'static> = SchemaNode::Date;
	static TM: SchemaNode<'static> = SchemaNode::TimeMillis;
	static TU: SchemaNode<'static> = SchemaNode::TimeMicros;
	static SM: SchemaNode<'static> = SchemaNode::TimestampMillis;
	static TS: SchemaNode<'static> = SchemaNode::TimestampMicros;
	let buf: [u8; 11] = kani::any();
	let len: usize = kani::any();
	kani::assume(len <= 11);
	let input = &buf[..len];
	kani::cover!(matches!(spec_dec_long(input), Some((v, _)) if v > u32::MAX as i64), "COV long-backed value beyond 32 bits");
	skip_equals_read!(&DA, input, len);
	skip_equals_read!(&TM, input, len);
	skip_equals_read!(&TU, input, len);
	skip_equals_read!(&SM, input, len);
	skip_equals_read!(&TS, input, len);
}

//@ harness: c12_skip_length_delimited_nodes
//@   props: C12
//@   tier: quick
//@   kind: bounded(input length <= 4)
//@   fn: de::deserializer::DatumDeserializer::deserialize_ignored_any (string: no UTF-8 check) vs deserialize_any (nodes string, bytes, uuid)
//@   domain: every input of length 0..=4
//@   post: whenever reading succeeds (valid length, valid UTF-8), ignoring succeeds and consumes the same bytes
#[kani::proof]
#[kani::unwind(8)]
#[kani::stub(alloc::fmt::format, stub_format)]
fn c12_skip_length_delimited_nodes() {
	static ST: SchemaNode<'static> = SchemaNode::String;
	static BY: SchemaNode<'static> = SchemaNode::Bytes;
	static UU: SchemaNode<'static> = SchemaNode::Uuid;
	let buf: [u8; 4] = kani::any();
	let len: usize = kani::any();
	kani::assume(len <= 4);
	let input = &buf[..len];
	skip_equals_read!(&ST, input, len);
	skip_equals_read!(&BY, input, len);
	skip_equals_read!(&UU, input, len);
}

/// Modular step for decimal nodes: `read_decimal` cannot be executed by CBMC (rust_decimal), so its
/// CONTRACT stands in for it - ASSUMED, not discharged (A11): "reads exactly the decimal's own bytes
/// (fixed: `size` bytes, no length prefix; bytes: prefix + length) and hands the value to the visitor".
/// The stand-in records that it was called and for which representation, and consumes a fixed
/// decimal's bytes; the obligation on the CALLER (`deserialize_ignored_any`, `deserialize_any`) is that a
/// decimal node is routed here and nowhere else (e.g. not to the length-delimited skip).
static mut READ_DECIMAL_CALLED_FOR_FIXED_SIZE: usize = usize::MAX;
fn contract_read_decimal<'de, R, V>(
	state: &mut DeserializerState<R>,
	decimal_mode: DecimalMode<'_>,
	_hint: VisitorHint,
	_visitor: V,
) -> Result<V::Value, DeError>
where
	R: ReadSlice<'de>,
	V: Visitor<'de>,
{
	if let DecimalMode::Regular(Decimal { repr: DecimalRepr::Fixed(fixed), .. }) = decimal_mode {
		unsafe { READ_DECIMAL_CALLED_FOR_FIXED_SIZE = fixed.size };
		let n = fixed.size;
		if state.skip_bytes(n as u64).is_err() {
			return Err(DeError::new("eof"));
		}
	}
	Err(DeError::new("value not produced by the stand-in"))
}

//@ harness: c12_skip_length_delimited_nodes_6
//@   props: C12
//@   tier: thorough
//@   kind: bounded(input length <= 6)
//@   fn: de::deserializer::DatumDeserializer::deserialize_ignored_any (string: no UTF-8 check) vs deserialize_any (nodes string, bytes, uuid)
//@   domain: every input of length 0..=6
//@   post: whenever reading succeeds (valid length, valid UTF-8), ignoring succeeds and consumes the same bytes
#[kani::proof]
#[kani::unwind(9)]
#[kani::stub(alloc::fmt::format, stub_format)]
fn c12_skip_length_delimited_nodes_6() {
	static ST: SchemaNode<'static> = SchemaNode::String;
	static BY: SchemaNode<'static> = SchemaNode::Bytes;
	static UU: SchemaNode<'static> = SchemaNode::Uuid;
	let buf: [u8; 6] = kani::any();
	let len: usize = kani::any();
	kani::assume(len <= 6);
	let input = &buf[..len];
	skip_equals_read!(&ST, input, len);
	skip_equals_read!(&BY, input, len);
	skip_equals_read!(&UU, input, len);
}

//@ harness: c12_skip_decimal_fixed_delegates
//@   replay: no
//@   props: C12
//@   tier: quick
//@   kind: complete (modular: read_decimal replaced by its ASSUMED contract, A11)
//@   fn: de::deserializer::DatumDeserializer::{deserialize_ignored_any, deserialize_any} on a decimal-over-fixed(8) node
//@   domain: every input of length 0..=10
//@   post: both ignoring and reading a fixed-backed decimal are routed to read_decimal with the node's fixed representation, and nothing else consumes input: exactly 8 bytes are consumed when available (in particular no length prefix is read, as it would be for a length-delimited type)
#[kani::proof]
#[kani::unwind(13)]
#[kani::stub(alloc::fmt::format, stub_format)]
#[kani::stub(read_decimal, contract_read_decimal)]
fn c12_skip_decimal_fixed_delegates() {
	static DF: SchemaNode<'static> = decimal_fixed_node(8, 2);
	let buf: [u8; 10] = kani::any();
	let len: usize = kani::any();
	kani::assume(len <= 10);
	let input = &buf[..len];
	let mut st = state_over(&DF, input);
	let r = st.deserializer().deserialize_ignored_any(IgnoredAny);
	let consumed = len - remaining(&mut st.reader);
	assert!(unsafe { READ_DECIMAL_CALLED_FOR_FIXED_SIZE } == 8, "OBL C12.skip.fixed_decimal_is_routed_to_read_decimal_with_its_fixed_size");
	if len >= 8 {
		assert!(consumed == 8, "OBL C12.skip.fixed_decimal_consumes_exactly_its_fixed_size");
	} else {
		assert!(consumed == 0, "OBL C12.skip.short_input_not_partially_consumed_by_the_caller");
	}
	std::mem::forget(r);
	unsafe { READ_DECIMAL_CALLED_FOR_FIXED_SIZE = usize::MAX };
	let mut st = state_over(&DF, input);
	let r = st.deserializer().deserialize_any(Swallow);
	assert!(unsafe { READ_DECIMAL_CALLED_FOR_FIXED_SIZE } == 8, "OBL C12.read.fixed_decimal_is_routed_to_read_decimal");
	assert!(len - remaining(&mut st.reader) == if len >= 8 { 8 } else { 0 }, "OBL C12.skip.consumes_exactly_what_reading_consumes");
	std::mem::forget(r);
}

// ---- C04: depth budget

/// Visitor/seed pair that records the depth budget of the child deserializer it is handed.
/// (`DatumDeserializer` is the only Deserializer whose budget we can read, via a thread through a static.)
static mut SEEN_CHILD_DEPTH: usize = usize::MAX;
struct DepthProbe;
impl<'de> Visitor<'de> for DepthProbe {
	type Value = ();
	fn expecting(&self, _f: &mut std::fmt::Formatter) -> std::fmt::Result {
		Ok(())
	}
	fn visit_unit<E: Error>(self) -> Result<(), E> { Ok(()) }
	fn visit_none<E: Error>(self) -> Result<(), E> { Ok(()) }
	fn visit_i64<E: Error>(self, _v: i64) -> Result<(), E> { Ok(()) }
	fn visit_some<D: Deserializer<'de>>(self, _d: D) -> Result<(), D::Error> { Ok(()) }
}

/// Frame obligations for harnesses on array/map/union nodes: CBMC keeps every arm of
/// `match *self.schema_node` reachable for such nodes, including the decimal arm (rust_decimal) and
/// the string arms (UTF-8 validation loops), which do not finish.  Their entry points are replaced
/// by assertions that they are NOT entered (discharged, not assumed).
pub(crate) fn verif_unreachable_read_decimal<'de, R, V>(
	_state: &mut DeserializerState<R>,
	_decimal_mode: DecimalMode<'_>,
	_hint: VisitorHint,
	_visitor: V,
) -> Result<V::Value, DeError>
where
	R: ReadSlice<'de>,
	V: Visitor<'de>,
{
	assert!(false, "OBL frame.decimal_arm_not_entered_for_non_decimal_node");
	Err(DeError::new("unreachable"))
}
pub(crate) fn verif_unreachable_from_utf8(_v: &[u8]) -> Result<&str, std::str::Utf8Error> {
	assert!(false, "OBL frame.string_arm_not_entered_for_non_string_node");
	Ok("")
}

macro_rules! at_zero {
	($input:expr, $node:expr, $call:ident ( $($arg:expr),* )) => {{
		let mut st = state_over($node, $input);
		st.config.allowed_depth = 0;
		let r = st.deserializer().$call($($arg,)* IgnoredAny);
		assert!(r.is_err(), "OBL C04.depth.exhausted_budget_is_err_at_descent_site");
		std::mem::forget(r);
	}};
}
static DEPTH_ARR: SchemaNode<'static> = SchemaNode::Array(NodeRef::from_static(&N_LONG));
static DEPTH_MAP: SchemaNode<'static> = SchemaNode::Map(NodeRef::from_static(&N_LONG));

//@ harness: c04_depth_zero_array_sites
//@   props: C04
//@   tier: quick
//@   kind: complete
//@   fn: de::deserializer::DatumDeserializer::{deserialize_any, deserialize_seq, deserialize_tuple, deserialize_ignored_any} (node array<long>)
//@   domain: depth budget 0; any first input byte
//@   post: Err at each of the four array descent sites when the budget is exhausted (a site that forgets `.dec()?` would hand out a seq access)
#[kani::proof]
#[kani::unwind(6)]
#[kani::stub(alloc::fmt::format, stub_format)]
#[kani::stub(read_decimal, verif_unreachable_read_decimal)]
#[kani::stub(core::str::from_utf8, verif_unreachable_from_utf8)]
fn c04_depth_zero_array_sites() {
	let buf: [u8; 2] = kani::any();
	let input = &buf[..];
	at_zero!(input, &DEPTH_ARR, deserialize_any());
	at_zero!(input, &DEPTH_ARR, deserialize_seq());
	at_zero!(input, &DEPTH_ARR, deserialize_tuple(2));
	at_zero!(input, &DEPTH_ARR, deserialize_ignored_any());
}

//@ harness: c04_depth_zero_map_sites
//@   props: C04
//@   tier: quick
//@   kind: complete
//@   fn: de::deserializer::DatumDeserializer::{deserialize_any, deserialize_map, deserialize_ignored_any} (node map<long>)
//@   domain: depth budget 0; any first input byte
//@   post: Err at each map descent site when the budget is exhausted
#[kani::proof]
#[kani::unwind(6)]
#[kani::stub(alloc::fmt::format, stub_format)]
#[kani::stub(read_decimal, verif_unreachable_read_decimal)]
#[kani::stub(core::str::from_utf8, verif_unreachable_from_utf8)]
fn c04_depth_zero_map_sites() {
	let buf: [u8; 2] = kani::any();
	let input = &buf[..];
	at_zero!(input, &DEPTH_MAP, deserialize_any());
	at_zero!(input, &DEPTH_MAP, deserialize_map());
	at_zero!(input, &DEPTH_MAP, deserialize_ignored_any());
}

//@ harness: c04_depth_zero_enum_access_sites
//@   props: C04
//@   tier: quick
//@   kind: complete
//@   fn: de::deserializer::DatumDeserializer::deserialize_enum (unit-variant-identifier nodes: long; type-name nodes: double)
//@   domain: depth budget 0; any input
//@   post: Err when the budget is exhausted (both enum-access descents)
#[kani::proof]
#[kani::unwind(6)]
#[kani::stub(alloc::fmt::format, stub_format)]
fn c04_depth_zero_enum_access_sites() {
	let buf: [u8; 2] = kani::any();
	let input = &buf[..];
	at_zero!(input, &N_LONG, deserialize_enum("E", &[]));
	at_zero!(input, &N_DOUBLE, deserialize_enum("E", &[]));
}

// ---------------------------------------------------------------------------------------------
// read_decimal, integer-hinted scale-0 path (target i128): the only path of read_decimal that
// returns before rust_decimal (trusted dependency, A3) is entered.
// ---------------------------------------------------------------------------------------------

/// Frame obligation: on the integer-hinted scale-0 path `read_decimal` returns before rust_decimal
/// is entered.  The stand-in asserts that it is NOT entered; the failed assertion also stops CBMC
/// from symbolically executing rust_decimal's conversion and formatting code behind a call that the
/// assertion has just shown unreachable (without it the harnesses do not finish).
fn verif_unreachable_rust_decimal(_num: i128, scale: u32) -> Result<rust_decimal::Decimal, rust_decimal::Error> {
	assert!(false, "OBL frame.integer_hint_scale0_never_enters_rust_decimal");
	kani::assume(false);
	Err(rust_decimal::Error::ScaleExceedsMaximumPrecision(scale))
}

macro_rules! decimal_fixed_i128 {
	($name:ident, $size:expr, $inlen:expr) => {
		#[kani::proof]
		#[kani::unwind(19)]
		#[kani::stub(alloc::fmt::format, stub_format)]
		#[kani::stub(rust_decimal::Decimal::try_from_i128_with_scale, verif_unreachable_rust_decimal)]
		fn $name() {
			static DF: SchemaNode<'static> = decimal_fixed_node($size, 0);
			let buf: [u8; $inlen] = kani::any();
			let len: usize = kani::any();
			kani::assume(len <= $inlen);
			let input = &buf[..len];
			let mut st = state_over(&DF, input);
			let r = <i128 as Deserialize>::deserialize(st.deserializer());
			if $size > 16 {
				assert!(r.is_err(), "OBL C04.decimal_fixed.size_over_16_is_err");
			} else if len >= $size {
				assert!(matches!(r, Ok(v) if v == spec_twos_complement(&input[..$size])), "OBL C03.decimal_fixed.value_is_sign_extended_big_endian");
				assert!(len - remaining(&mut st.reader) == $size, "OBL C03.decimal_fixed.consumes_fixed_size");
			} else {
				assert!(r.is_err(), "OBL C03.decimal_fixed.premature_end_is_err");
			}
			std::mem::forget(r);
		}
	};
}

//@ harness: c03_decimal_fixed0_i128
//@   props: C03, C04, C01
//@   tier: quick
//@   kind: complete
//@   fn: de::deserializer::types::decimal::read_decimal (DecimalMode::Regular, fixed(0), scale 0, VisitorHint::I128) via <i128 as Deserialize>; rust_decimal entry = frame obligation (not entered)
//@   domain: every input of length 0..=1
//@   post: a zero-size decimal decodes to 0 and consumes nothing - in particular no index past the 16-byte scratch buffer (panic freedom is an obligation)
decimal_fixed_i128!(c03_decimal_fixed0_i128, 0, 1);

//@ harness: c03_decimal_fixed1_i128
//@   props: C03, C04, C01
//@   tier: quick
//@   kind: complete
//@   fn: de::deserializer::types::decimal::read_decimal (fixed(1), scale 0, i128 target)
//@   domain: every input of length 0..=2
//@   post: Ok(v) iff one byte is available, v its sign-extended value (0x80..=0xFF negative), exactly one byte consumed; else Err
decimal_fixed_i128!(c03_decimal_fixed1_i128, 1, 2);

//@ harness: c03_decimal_fixed2_i128
//@   props: C03, C04, C01
//@   tier: thorough
//@   kind: complete
//@   fn: de::deserializer::types::decimal::read_decimal (fixed(2), scale 0, i128 target)
//@   domain: every input of length 0..=3
//@   post: Ok(v) iff 2 bytes are available, v their sign-extended big-endian value, exactly 2 bytes consumed; else Err
decimal_fixed_i128!(c03_decimal_fixed2_i128, 2, 3);

//@ harness: c03_decimal_fixed8_i128
//@   props: C03, C04, C01
//@   tier: thorough
//@   kind: complete
//@   fn: de::deserializer::types::decimal::read_decimal (fixed(8), scale 0, i128 target)
//@   domain: every input of length 0..=9
//@   post: Ok(v) iff 8 bytes are available, v their sign-extended big-endian value (all 2^64), exactly 8 bytes consumed; else Err
decimal_fixed_i128!(c03_decimal_fixed8_i128, 8, 9);

//@ harness: c03_decimal_fixed16_i128
//@   props: C03, C04, C01
//@   tier: quick
//@   kind: complete
//@   fn: de::deserializer::types::decimal::read_decimal (fixed(16), scale 0, i128 target)
//@   domain: every input of length 0..=17
//@   post: Ok(v) iff 16 bytes are available, v == the big-endian two's-complement i128 (all 2^128 values), exactly 16 bytes consumed; else Err
decimal_fixed_i128!(c03_decimal_fixed16_i128, 16, 17);

//@ harness: c03_decimal_fixed17_i128
//@   props: C03, C04
//@   tier: quick
//@   kind: complete
//@   fn: de::deserializer::types::decimal::read_decimal (fixed(17): wider than the 16-byte scratch buffer)
//@   domain: every input of length 0..=18
//@   post: Err (checked_sub), never a panic or an out-of-bounds write
decimal_fixed_i128!(c03_decimal_fixed17_i128, 17, 18);

//@ harness: c03_decimal_bytes_empty_i128
//@   props: C03, C04, C01
//@   tier: quick
//@   kind: complete
//@   fn: de::deserializer::types::decimal::read_decimal (DecimalMode::Regular, bytes, scale 0, VisitorHint::I128) via <i128 as Deserialize>: length prefix 0
//@   domain: length prefix 0 followed by any byte
//@   post: the empty two's-complement payload decodes to 0, exactly the prefix is consumed; no index past the 16-byte scratch buffer (panic freedom is an obligation). Payload lengths 1..=16 over bytes do not finish under CBMC (symbolic-length read_exact; attic note) - the same code path is discharged for fixed(1) and fixed(16)
#[kani::proof]
#[kani::unwind(19)]
#[kani::stub(alloc::fmt::format, stub_format)]
#[kani::stub(rust_decimal::Decimal::try_from_i128_with_scale, verif_unreachable_rust_decimal)]
fn c03_decimal_bytes_empty_i128() {
	static DB: SchemaNode<'static> = decimal_bytes_node(0);
	let mut buf: [u8; 2] = kani::any();
	buf[0] = 0;
	let mut st = state_over(&DB, &buf[..]);
	let r = <i128 as Deserialize>::deserialize(st.deserializer());
	let consumed = 2 - remaining(&mut st.reader);
	assert!(matches!(r, Ok(0)), "OBL C03.decimal.empty_payload_is_zero");
	assert!(consumed == 1, "OBL C03.decimal.consumes_prefix_plus_payload");
	std::mem::forget(r);
}

//@ harness: c04_decimal_bytes_negative_len
//@   props: C03, C04
//@   tier: quick
//@   kind: complete
//@   fn: de::deserializer::types::decimal::read_decimal -> read_len (bytes-backed decimal, negative length prefix)
//@   domain: length prefix -1 followed by any two bytes
//@   post: Err, never a panic
#[kani::proof]
#[kani::unwind(19)]
#[kani::stub(alloc::fmt::format, stub_format)]
#[kani::stub(rust_decimal::Decimal::try_from_i128_with_scale, verif_unreachable_rust_decimal)]
fn c04_decimal_bytes_negative_len() {
	static DB: SchemaNode<'static> = decimal_bytes_node(0);
	let mut buf: [u8; 3] = kani::any();
	buf[0] = 1; // zig-zag of -1
	let mut st = state_over(&DB, &buf[..]);
	let r = <i128 as Deserialize>::deserialize(st.deserializer());
	assert!(r.is_err(), "OBL C04.decimal.negative_length_is_err");
	std::mem::forget(r);
}

//@ harness: c03_de_cells_canary
//@   props: C03, C04, C12, C01
//@   tier: quick
//@   kind: canary
#[kani::proof]
#[kani::unwind(13)]
#[kani::stub(alloc::fmt::format, stub_format)]
fn c03_de_cells_canary() {
	static NODE: SchemaNode<'static> = SchemaNode::Long;
	let buf: [u8; 11] = kani::any();
	let mut st = state_over(&NODE, &buf);
	let r = <i64 as Deserialize>::deserialize(st.deserializer());
	assert!(r.is_err(), "OBL canary");
	std::mem::forget(r);
}
