// NOT LOADED: removed from unit de_cells under the fallback rule (does not finish in 600 s: even with
// rust_decimal::Decimal::try_from_i128_with_scale stubbed, rust_decimal's to_str / Serialize code
// after it stays reachable for CBMC).  Listed under not_decided for C12 / C03.

/// rust_decimal is a trusted dependency (A3) that CBMC cannot get through; for the skip contract
/// only the number of bytes consumed BEFORE it is entered matters, so its entry point is replaced
/// by "rejects" (one of its documented outcomes).
fn stub_try_from_i128_with_scale(_num: i128, scale: u32) -> Result<rust_decimal::Decimal, rust_decimal::Error> {
	Err(rust_decimal::Error::ScaleExceedsMaximumPrecision(scale))
}

//@ harness: c12_skip_decimal_nodes
//@   props: C12, C04
//@   tier: quick
//@   kind: complete
//@   fn: de::deserializer::DatumDeserializer::deserialize_ignored_any -> read_decimal (nodes decimal over fixed(8), decimal over bytes); rust_decimal::Decimal::try_from_i128_with_scale stubbed to Err (A3)
//@   domain: every input of length 0..=10
//@   post: ignoring a fixed-backed decimal consumes exactly the fixed size (no length prefix is read); ignoring a bytes-backed decimal consumes exactly prefix + length; shorter input => Err; sizes > 16 => Err without reading
#[kani::proof]
#[kani::unwind(19)]
#[kani::stub(alloc::fmt::format, stub_format)]
#[kani::stub(rust_decimal::Decimal::try_from_i128_with_scale, stub_try_from_i128_with_scale)]
fn c12_skip_decimal_nodes() {
	static DF: SchemaNode<'static> = decimal_fixed_node(8, 2);
	static DB: SchemaNode<'static> = decimal_bytes_node(2);
	let buf: [u8; 10] = kani::any();
	let len: usize = kani::any();
	kani::assume(len <= 10);
	let input = &buf[..len];
	let mut st = state_over(&DF, input);
	let r = st.deserializer().deserialize_ignored_any(IgnoredAny);
	let consumed = len - remaining(&mut st.reader);
	if len >= 8 {
		assert!(consumed == 8, "OBL C12.skip.fixed_decimal_consumes_exactly_its_fixed_size");
	} else {
		assert!(r.is_err(), "OBL C03.decimal.premature_end_is_err");
	}
	std::mem::forget(r);
	let mut st = state_over(&DB, input);
	let r = st.deserializer().deserialize_ignored_any(IgnoredAny);
	let consumed = len - remaining(&mut st.reader);
	match spec_dec_long(input) {
		Some((l, n)) if l >= 0 && l <= 16 && (l as usize) <= len - n => {
			kani::cover!(l == 3, "COV three-byte bytes decimal");
			assert!(consumed == n + l as usize, "OBL C12.skip.bytes_decimal_consumes_prefix_plus_length");
		}
		_ => assert!(r.is_err(), "OBL C03.decimal.bad_or_oversized_length_is_err"),
	}
	std::mem::forget(r);
}


// ---- also removed: integer-hinted scale-0 decimal decode (read_decimal) does not finish in 900 s although the
// rust_decimal part is dynamically unreachable on that path (same finding as in the design phase).

//@ harness: c03_decimal_integer_hint
//@   props: C03, C04, C01
//@   tier: quick
//@   kind: bounded(input length <= 6: length prefix + up to 5 payload bytes for decimal over bytes; decimal over fixed(2)); scale 0, integer-hinted target (i128) - the path of read_decimal that does not enter rust_decimal
//@   fn: de::deserializer::types::decimal::read_decimal (DecimalMode::Regular, VisitorHint::I128) via <i128 as Deserialize> on decimal nodes
//@   domain: every byte string of length 0..=6
//@   post: bytes-decimal: Ok(v) iff valid length L (0 <= L <= 16) with L bytes available, v == big-endian two's-complement value of the payload (sign-extended; the EMPTY payload is 0), prefix + L consumed; otherwise Err. fixed(2)-decimal: Ok iff 2 bytes available, v their sign-extended value. Never a panic (index/overflow checks are obligations)
#[kani::proof]
#[kani::unwind(19)]
#[kani::stub(alloc::fmt::format, stub_format)]
fn c03_decimal_integer_hint() {
	static DB: SchemaNode<'static> = decimal_bytes_node(0);
	static DF: SchemaNode<'static> = decimal_fixed_node(2, 0);
	let buf: [u8; 6] = kani::any();
	let len: usize = kani::any();
	kani::assume(len <= 6);
	let input = &buf[..len];
	let mut st = state_over(&DB, input);
	let r = <i128 as Deserialize>::deserialize(st.deserializer());
	let consumed = len - remaining(&mut st.reader);
	match spec_dec_long(input) {
		Some((l, n)) if l >= 0 && l <= 16 && (l as usize) <= len - n => {
			let payload = &input[n..n + l as usize];
			kani::cover!(l == 0, "COV empty payload denotes zero");
			kani::cover!(l == 2 && payload[0] >= 0x80, "COV negative two-byte value");
			assert!(matches!(r, Ok(v) if v == spec_twos_complement(payload)), "OBL C03.decimal.value_is_sign_extended_big_endian_payload");
			assert!(consumed == n + l as usize, "OBL C03.decimal.consumes_prefix_plus_payload");
		}
		_ => assert!(r.is_err(), "OBL C03.decimal.bad_negative_oversized_or_unavailable_length_is_err"),
	}
	std::mem::forget(r);
	let mut st = state_over(&DF, input);
	let r = <i128 as Deserialize>::deserialize(st.deserializer());
	if len >= 2 {
		assert!(matches!(r, Ok(v) if v == spec_twos_complement(&input[..2])), "OBL C03.decimal_fixed.value_is_sign_extended");
		assert!(len - remaining(&mut st.reader) == 2, "OBL C03.decimal_fixed.consumes_fixed_size");
	} else {
		assert!(r.is_err(), "OBL C03.decimal_fixed.premature_end_is_err");
	}
	std::mem::forget(r);
}

