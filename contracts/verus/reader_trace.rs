// Verus unit (lemma only, no extracted code): composes the PER-TRANSITION contracts of the container
// Reader (Kani, unit container_reader: c17_not_in_block_step, c17_in_block_value_step_*,
// c17_leave_block_step_*, c17_broken_and_eof_latches) into the trace statement of C17:
//   "after an unrecoverable (framing) error the reader reports it ONCE and then reports end of stream"
// for call histories of ANY length.
//
// The transition relation below is exactly what those harnesses discharge on the real
// deserialize_seed_next (null codec, datum decoder abstracted - so every Err here is a framing error):
//   latch set                    : End, nothing changes                    (c17_broken_and_eof_latches)
//   Broken, latch clear          : Err, latch set                          (c17_broken_and_eof_latches)
//   NotInBlock                   : End with nothing changed (input exhausted)
//                                | Err with the latch set
//                                | Val, now InBlock, latch clear           (c17_not_in_block_step)
//   InBlock(k), k > 0            : Val, InBlock(k-1), latch clear          (c17_in_block_value_step_*)
//   InBlock(0)                   : Err with the latch set (data left / bad marker)
//                                | block left, then as NotInBlock          (c17_leave_block_step_*: discharged with the
//                                  input exhausted after the marker; with a further block following, the same
//                                  call continues with the NotInBlock transition - composition inside one call)
// What the values ARE (a prefix of what was written) is not part of this lemma: that is the datum
// decoder's contract (C03) applied to the block's bytes.
use vstd::prelude::*;
verus! {

pub enum RS {
    NotInBlock,
    InBlock(nat),
    Broken,
}

pub struct R {
    pub st: RS,
    pub latch: bool,
}

#[derive(PartialEq, Eq)]
pub enum Out {
    Val,
    End,
    Err,
}

pub open spec fn from_not_in_block(r: R, o: Out, r2: R) -> bool {
    ||| (o == Out::End && r2 == r)
    ||| (o == Out::Err && r2.latch)
    ||| (o == Out::Val && r2.st is InBlock && !r2.latch)
}

pub open spec fn trans(r: R, o: Out, r2: R) -> bool {
    if r.latch {
        o == Out::End && r2 == r
    } else {
        match r.st {
            RS::Broken => o == Out::Err && r2.latch,
            RS::NotInBlock => from_not_in_block(r, o, r2),
            RS::InBlock(k) => if k > 0 {
                o == Out::Val && r2 == (R { st: RS::InBlock((k - 1) as nat), latch: false })
            } else {
                (o == Out::Err && r2.latch) || from_not_in_block(R { st: RS::NotInBlock, latch: false }, o, r2)
            },
        }
    }
}

/// a call history: states[0] is the state before the first call, outs[i] the i-th result
pub open spec fn history(states: Seq<R>, outs: Seq<Out>) -> bool {
    &&& states.len() == outs.len() + 1
    &&& forall|i: int| 0 <= i < outs.len() ==> trans(#[trigger] states[i], outs[i], states[i + 1])
}

/// once the latch is set it stays set and every later call reports end of stream
proof fn lemma_latched_forever(states: Seq<R>, outs: Seq<Out>, i: int, j: int)
    requires history(states, outs), 0 <= i <= j < outs.len(), states[i].latch,
    ensures outs[j] == Out::End, states[j].latch,
    decreases j - i,
{
    if i < j {
        assert(trans(states[i], outs[i], states[i + 1]));
        lemma_latched_forever(states, outs, i + 1, j);
    } else {
        assert(trans(states[i], outs[i], states[i + 1]));
    }
}

/// MAIN LEMMA (C17, "reported once, then end of stream"): in every call history of the reader, whatever
/// its length and whatever state it starts from, every call after an error reports end of stream -
/// so there is at most one error, and never a value after it.
pub proof fn lemma_error_once_then_end_of_stream(states: Seq<R>, outs: Seq<Out>, i: int, j: int)
    requires history(states, outs), 0 <= i < j < outs.len(), outs[i] == Out::Err,
    ensures outs[j] == Out::End,
{
    assert(trans(states[i], outs[i], states[i + 1]));
    // every transition that reports Err sets the latch
    assert(states[i + 1].latch);
    lemma_latched_forever(states, outs, i + 1, j);
}

/// a value is only ever reported from a state whose latch is clear, and leaves it clear
pub proof fn lemma_value_only_when_not_latched(states: Seq<R>, outs: Seq<Out>, i: int)
    requires history(states, outs), 0 <= i < outs.len(), outs[i] == Out::Val,
    ensures !states[i].latch, !states[i + 1].latch,
{
    assert(trans(states[i], outs[i], states[i + 1]));
}

} // verus!
