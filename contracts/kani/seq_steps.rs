//@ unit: seq_steps
//@ inject-into: serde_avro_fast/src/ser/serializer/seq_or_tuple.rs
//@ anchor: serde_avro_fast/src/ser/serializer/seq_or_tuple.rs :: fn serialize_element<T: \?Sized>\(&mut self, value: &T\) -> Result<\(\), SerError>
//@ anchor: serde_avro_fast/src/ser/serializer/seq_or_tuple.rs :: fn end\(mut self\) -> Result<\(\), SerError>
//@ anchor: serde_avro_fast/src/ser/serializer/seq_or_tuple.rs :: struct ExtractU8Serializer;
//@ anchor: serde_avro_fast/src/ser/serializer/seq_or_tuple.rs :: pub\(crate\) fn buffered_bytes\(state: &'r mut SerializerState<'c, 's, W>\) -> Self \{
//@ anchor: serde_avro_fast/src/ser/serializer/seq_or_tuple.rs :: impl<W> Drop for SerializeSeqOrTupleOrTupleStruct<'_, '_, '_, W> \{
//@ include: spec
//@ include: common

// ---------------------------------------------------------------------------------------------
// C02 (seq / tuple presented to fixed, bytes-with-advertised-length, duration): inductive one-step
// contracts of the sequence serializer, each from an ARBITRARY state of that kind, with the state
// built in place (so that CBMC sees which kind it is).  Kind::Fixed also serves `bytes` with an
// advertised length (`SerializeSeqOrTupleOrTupleStruct::bytes` writes the length prefix, then is Fixed).
// ---------------------------------------------------------------------------------------------

use std::mem::ManuallyDrop;

macro_rules! fresh_state {
	($config:ident, $state:ident) => {
		let mut $config = ManuallyDrop::new(SerializerConfig::new_with_optional_schema(None));
		let mut $state = ManuallyDrop::new(SerializerState::from_writer(Vec::new(), &mut $config));
	};
}

//@ harness: c02_seq_fixed_element_step
//@   props: C02, C01
//@   tier: quick
//@   kind: complete
//@   fn: ser::serializer::seq_or_tuple::SerializeSeqOrTupleOrTupleStruct::{serialize_element (Kind::Fixed), end} + ExtractU8Serializer
//@   domain: arbitrary state (bytes still expected: any usize) x element presented as any u8 / any i64 / any u16
//@   post: an element is accepted iff at least one more byte is expected AND its value fits a byte (0..=255); then exactly that byte is written and one less is expected; one element too many => Err, nothing written; end(): Ok iff nothing is expected any more (too few elements => Err)
#[kani::proof]
#[kani::unwind(6)]
#[kani::stub(alloc::fmt::format, stub_format)]
fn c02_seq_fixed_element_step() {
	let expected: usize = kani::any();
	fresh_state!(config, state);
	let mut s = ManuallyDrop::new(SerializeSeqOrTupleOrTupleStruct {
		kind: Kind::Fixed { serializer_state: &mut state, expected_len: expected },
	});
	let which: u8 = kani::any();
	kani::assume(which < 3);
	let (r, val_fits, byte) = match which {
		0 => {
			let v: u8 = kani::any();
			(s.serialize_element(&v), true, v)
		}
		1 => {
			let v: i64 = kani::any();
			(s.serialize_element(&v), v >= 0 && v <= 255, v as u8)
		}
		_ => {
			let v: u16 = kani::any();
			(s.serialize_element(&v), v <= 255, v as u8)
		}
	};
	let (left, out_len, out0) = match &s.kind {
		Kind::Fixed { serializer_state, expected_len } => (
			*expected_len,
			serializer_state.writer.len(),
			if serializer_state.writer.is_empty() { 0 } else { serializer_state.writer[0] },
		),
		_ => {
			assert!(false, "OBL C02.seq_fixed.kind_unchanged");
			return;
		}
	};
	kani::cover!(expected == 0 && r.is_err(), "COV one element too many");
	kani::cover!(which == 1 && !val_fits, "COV element out of byte range");
	if expected > 0 && val_fits {
		assert!(r.is_ok() && left == expected - 1 && out_len == 1 && out0 == byte, "OBL C02.seq_fixed.element_is_written_as_its_byte");
	} else {
		assert!(r.is_err(), "OBL C02.seq_fixed.too_many_elements_or_non_byte_value_is_err");
		if expected == 0 {
			assert!(out_len == 0, "OBL C02.seq_fixed.nothing_written_past_the_advertised_length");
		}
	}
	std::mem::forget(r);
	// end() from an arbitrary state
	let e2: usize = kani::any();
	fresh_state!(config2, state2);
	let s2 = SerializeSeqOrTupleOrTupleStruct {
		kind: Kind::Fixed { serializer_state: &mut state2, expected_len: e2 },
	};
	let r2 = s2.end();
	assert!(r2.is_ok() == (e2 == 0), "OBL C02.seq_fixed.end_ok_iff_exactly_the_advertised_number_of_elements");
	std::mem::forget(r2);
}

//@ harness: c02_seq_duration_element_step
//@   props: C02, C01
//@   tier: quick
//@   kind: complete
//@   fn: ser::serializer::seq_or_tuple::SerializeSeqOrTupleOrTupleStruct::{serialize_element (Kind::Duration), end} + extract_for_duration::ExtractU32ForDuration
//@   domain: arbitrary state (components already written: any u8) x component presented as any u32 / any u64 / any i32
//@   post: a component is accepted iff fewer than 3 were written AND it is presented as a u32; then its 4 little-endian bytes are written and the count increases by one; end(): Ok iff exactly 3 components were written
#[kani::proof]
#[kani::unwind(7)]
#[kani::stub(alloc::fmt::format, stub_format)]
fn c02_seq_duration_element_step() {
	let n0: u8 = kani::any();
	fresh_state!(config, state);
	let mut s = ManuallyDrop::new(SerializeSeqOrTupleOrTupleStruct {
		kind: Kind::Duration { serializer_state: &mut state, n_values: n0 },
	});
	let which: u8 = kani::any();
	kani::assume(which < 3);
	let v: u32 = kani::any();
	let (r, is_u32) = match which {
		0 => (s.serialize_element(&v), true),
		1 => (s.serialize_element(&(v as u64)), false),
		_ => (s.serialize_element(&(v as i32)), false),
	};
	let (n1, out_len) = match &s.kind {
		Kind::Duration { serializer_state, n_values } => (*n_values, serializer_state.writer.len()),
		_ => {
			assert!(false, "OBL C02.seq_duration.kind_unchanged");
			return;
		}
	};
	if n0 < 3 && is_u32 {
		assert!(r.is_ok() && n1 == n0 + 1 && out_len == 4, "OBL C02.seq_duration.component_written_and_counted");
		if let Kind::Duration { serializer_state, .. } = &s.kind {
			assert!(serializer_state.writer[..] == spec_enc_f32_bits(v), "OBL C02.seq_duration.component_is_little_endian_u32");
		}
	} else {
		kani::cover!(n0 == 3, "COV fourth component rejected");
		assert!(r.is_err() && out_len == 0 && n1 == n0, "OBL C02.seq_duration.fourth_component_or_non_u32_is_err");
	}
	std::mem::forget(r);
	let m: u8 = kani::any();
	fresh_state!(config2, state2);
	let s2 = SerializeSeqOrTupleOrTupleStruct { kind: Kind::Duration { serializer_state: &mut state2, n_values: m } };
	let r2 = s2.end();
	assert!(r2.is_ok() == (m == 3), "OBL C02.seq_duration.end_ok_iff_exactly_three_components");
	std::mem::forget(r2);
}

fn pool_wf(cfg: &SerializerConfig<'_>) -> bool {
	let mut ok = true;
	let mut i = 0;
	while i < cfg.buffers.field_reordering_buffers.len() {
		if !cfg.buffers.field_reordering_buffers[i].is_empty() {
			ok = false;
		}
		i += 1;
	}
	ok
}

macro_rules! buffered_bytes_element_step {
	($name:ident, $n0:expr, $t:ty) => {
		#[kani::proof]
		#[kani::unwind(6)]
		#[kani::stub(alloc::fmt::format, stub_format)]
		fn $name() {
			let b0: u8 = kani::any();
			fresh_state!(config, state);
			let mut buffer: Vec<u8> = Vec::with_capacity(4);
			if $n0 >= 1 {
				buffer.push(b0);
			}
			let mut s = ManuallyDrop::new(SerializeSeqOrTupleOrTupleStruct {
				kind: Kind::BufferedBytes { serializer_state: &mut state, buffer },
			});
			let v: $t = kani::any();
			let r = s.serialize_element(&v);
			let val_fits = v as i128 >= 0 && v as i128 <= 255;
			match &s.kind {
				Kind::BufferedBytes { serializer_state, buffer } => {
					assert!(serializer_state.writer.is_empty(), "OBL C02.seq_bytes.nothing_written_before_end");
					if val_fits {
						assert!(r.is_ok() && buffer.len() == $n0 + 1 && buffer[$n0] == v as u8, "OBL C02.seq_bytes.element_appended_as_its_byte");
					} else {
						assert!(r.is_err() && buffer.len() == $n0, "OBL C02.seq_bytes.non_byte_value_is_err_and_buffer_untouched");
					}
					assert!($n0 < 1 || buffer[0] == b0, "OBL C02.seq_bytes.earlier_elements_untouched");
				}
				_ => assert!(false, "OBL C02.seq_bytes.kind_unchanged"),
			}
			std::mem::forget(r);
		}
	};
}

//@ harness: c02_seq_buffered_bytes_element_step_first_i64
//@   props: C02, C01
//@   tier: quick
//@   kind: complete
//@   fn: ser::serializer::seq_or_tuple::SerializeSeqOrTupleOrTupleStruct::serialize_element (Kind::BufferedBytes: seq presented to a bytes node without advertised length) + ExtractU8Serializer
//@   domain: empty buffer x element presented as any i64
//@   post: the element is appended as its byte iff its value fits a byte (0..=255), else Err with the buffer untouched; earlier elements untouched; nothing reaches the output before end()
buffered_bytes_element_step!(c02_seq_buffered_bytes_element_step_first_i64, 0, i64);

//@ harness: c02_seq_buffered_bytes_element_step_second_u8
//@   props: C02, C01
//@   tier: quick
//@   kind: complete
//@   fn: ser::serializer::seq_or_tuple::SerializeSeqOrTupleOrTupleStruct::serialize_element (Kind::BufferedBytes: seq presented to a bytes node without advertised length) + ExtractU8Serializer
//@   domain: buffer holding one symbolic byte x element presented as any u8
//@   post: the element is appended as its byte iff its value fits a byte (0..=255), else Err with the buffer untouched; earlier elements untouched; nothing reaches the output before end()
buffered_bytes_element_step!(c02_seq_buffered_bytes_element_step_second_u8, 1, u8);

//@ harness: c02_seq_buffered_bytes_element_step_second_i64
//@   props: C02, C01
//@   tier: quick
//@   kind: complete
//@   fn: ser::serializer::seq_or_tuple::SerializeSeqOrTupleOrTupleStruct::serialize_element (Kind::BufferedBytes: seq presented to a bytes node without advertised length) + ExtractU8Serializer
//@   domain: buffer holding one symbolic byte x element presented as any i64
//@   post: the element is appended as its byte iff its value fits a byte (0..=255), else Err with the buffer untouched; earlier elements untouched; nothing reaches the output before end()
buffered_bytes_element_step!(c02_seq_buffered_bytes_element_step_second_i64, 1, i64);

//@ harness: c02_seq_buffered_bytes_end_and_drop
//@   props: C02, C14, C01
//@   tier: quick
//@   kind: bounded(buffer of 0..=2 bytes)
//@   fn: ser::serializer::seq_or_tuple::SerializeSeqOrTupleOrTupleStruct::end (Kind::BufferedBytes) -> SerializerState::write_length_delimited, and Drop (buffer handed back to the configuration's pool)
//@   domain: buffer content symbolic (0..=2 bytes); pool initially empty or holding one recycled buffer; end() called or the serializer dropped without end() (error path)
//@   post: end(): output == spec long(len) ++ bytes; either way the buffer returns to the pool EMPTY (pool_wf), so the `assert!(v.is_empty())` of the next pop cannot fire
#[kani::proof]
#[kani::unwind(6)]
#[kani::stub(alloc::fmt::format, stub_format)]
fn c02_seq_buffered_bytes_end_and_drop() {
	let b0: u8 = kani::any();
	let b1: u8 = kani::any();
	let n0: usize = kani::any();
	kani::assume(n0 <= 2);
	let mut config = ManuallyDrop::new(SerializerConfig::new_with_optional_schema(None));
	if kani::any() {
		config.buffers.field_reordering_buffers.push(Vec::with_capacity(4));
	}
	let pool0 = config.buffers.field_reordering_buffers.len();
	let mut state = ManuallyDrop::new(SerializerState::from_writer(Vec::new(), &mut config));
	let mut buffer: Vec<u8> = Vec::with_capacity(4);
	if n0 >= 1 {
		buffer.push(b0);
	}
	if n0 >= 2 {
		buffer.push(b1);
	}
	let call_end: bool = kani::any();
	{
		let s = SerializeSeqOrTupleOrTupleStruct {
			kind: Kind::BufferedBytes { serializer_state: &mut state, buffer },
		};
		if call_end {
			let r = s.end(); // consumes: Drop runs
			assert!(r.is_ok(), "OBL C02.seq_bytes.end_is_ok");
			std::mem::forget(r);
		} else {
			drop(s);
		}
	}
	let out = &state.writer;
	if call_end {
		assert!(out.len() == 1 + n0 && out[0] == (2 * n0) as u8, "OBL C02.seq_bytes.length_prefix_is_spec_long_of_len");
		assert!((n0 < 1 || out[1] == b0) && (n0 < 2 || out[2] == b1), "OBL C02.seq_bytes.payload_is_the_elements_in_order");
	} else {
		assert!(out.is_empty(), "OBL C02.seq_bytes.drop_writes_nothing");
	}
	let cfg: &SerializerConfig<'_> = &state.config;
	assert!(cfg.buffers.field_reordering_buffers.len() == pool0 + 1, "OBL C14.seq_bytes.buffer_is_recycled");
	assert!(pool_wf(cfg), "OBL C14.pool.every_pooled_buffer_is_empty_after_seq_bytes");
}

//@ harness: c14_buffered_bytes_constructor
//@   props: C14
//@   tier: quick
//@   kind: complete
//@   fn: ser::serializer::seq_or_tuple::SerializeSeqOrTupleOrTupleStruct::buffered_bytes
//@   domain: pool empty or holding one EMPTY recycled buffer (the pool invariant)
//@   post: starts from an empty buffer (taken from the pool if there is one); the emptiness assertion on the popped buffer holds under the pool invariant
#[kani::proof]
#[kani::unwind(6)]
#[kani::stub(alloc::fmt::format, stub_format)]
fn c14_buffered_bytes_constructor() {
	let mut config = ManuallyDrop::new(SerializerConfig::new_with_optional_schema(None));
	let pooled: bool = kani::any();
	if pooled {
		config.buffers.field_reordering_buffers.push(Vec::with_capacity(4));
	}
	let mut state = ManuallyDrop::new(SerializerState::from_writer(Vec::new(), &mut config));
	let s = ManuallyDrop::new(SerializeSeqOrTupleOrTupleStruct::buffered_bytes(&mut state));
	match &s.kind {
		Kind::BufferedBytes { serializer_state, buffer } => {
			assert!(buffer.is_empty(), "OBL C14.seq_bytes.starts_from_an_empty_buffer");
			assert!(buffer.capacity() >= 4 || !pooled, "OBL C14.seq_bytes.recycled_buffer_is_reused");
			assert!(serializer_state.config.buffers.field_reordering_buffers.is_empty(), "OBL C14.seq_bytes.buffer_taken_out_of_the_pool");
		}
		_ => assert!(false, "OBL C14.seq_bytes.kind_is_buffered_bytes"),
	}
}

//@ harness: c02_seq_steps_canary
//@   props: C02, C14
//@   tier: quick
//@   kind: canary
#[kani::proof]
#[kani::unwind(6)]
#[kani::stub(alloc::fmt::format, stub_format)]
fn c02_seq_steps_canary() {
	let e2: usize = kani::any();
	fresh_state!(config2, state2);
	let s2 = SerializeSeqOrTupleOrTupleStruct { kind: Kind::Fixed { serializer_state: &mut state2, expected_len: e2 } };
	let r2 = s2.end();
	assert!(r2.is_err(), "OBL canary");
	std::mem::forget(r2);
}
