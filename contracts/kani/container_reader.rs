//@ unit: container_reader
//@ inject-into: serde_avro_fast/src/object_container_file_encoding/reader/mod.rs
//@ requires-unit: schema_helper
//@ anchor: serde_avro_fast/src/object_container_file_encoding/reader/mod.rs :: pub fn deserialize_seed_next<'de, S: DeserializeSeed<'de>>\(
//@ anchor: serde_avro_fast/src/object_container_file_encoding/reader/mod.rs :: fn deserialize_next_inner<'de, S: DeserializeSeed<'de>>\(
//@ anchor: serde_avro_fast/src/de/read/take.rs :: fn take\(self, block_size: usize\) -> Result<Self::Take, DeError> \{\n\t\tif block_size > self.slice.len\(\)
//@ anchor: serde_avro_fast/src/de/read/take.rs :: impl<'de> IntoLeftAfterTake for SliceReadTake<'de> \{
//@ include: spec
//@ include: common

// ---------------------------------------------------------------------------------------------
// C17: the container Reader on damaged input (null codec, schema long).  A Reader is put directly
// into its NotInBlock state over the block section of a file (header parsing goes through
// serde_json, out of reach); the file body is one block  [count][size][v][sync16]  whose header
// varints are written in (legal) two-byte form so that truncation can fall INSIDE a varint.
// ---------------------------------------------------------------------------------------------

use crate::schema::self_referential::{
	NodeRef,
	__verif_schema_helper::{mk_schema_static, NODES_LONG, N_LONG},
};
use std::mem::ManuallyDrop;

/// Built in place in the harness body (a macro, not a function): returning the struct from a
/// function moves it (memcpy), after which CBMC no longer constant-folds `compression_codec` and
/// explores miniz_oxide's inflate on every block (does not finish).
macro_rules! reader_over {
	($bytes:expr, $sync:expr) => {
		Reader {
			reader_state: ReaderState::NotInBlock {
				reader: de::read::SliceRead::new($bytes),
				config: de::DeserializerConfig::from_schema_node(NodeRef::from_static(&N_LONG)),
				decompression_buffer: Vec::new(),
			},
			compression_codec: CompressionCodec::Null,
			sync_marker: $sync,
			pretend_eof_because_yielded_unrecoverable_error: false,
			schema: Arc::new(ManuallyDrop::into_inner(mk_schema_static(&NODES_LONG, [0; 8]))),
		}
	};
}

/// Frame obligation (null codec only; C05 not applicable): the `BufReader` arms of the reader's
/// state enum (deflate) stay reachable for CBMC, which then explores miniz_oxide's inflate (does not
/// finish).  flate2's decompression entry point is replaced by an assertion that it is NOT entered.
fn verif_unreachable_inflate(
	_this: &mut flate2::Decompress,
	_input: &[u8],
	_output: &mut [u8],
	_flush: flate2::FlushDecompress,
) -> Result<flate2::Status, flate2::DecompressError> {
	assert!(false, "OBL frame.null_codec_only_inflate_not_entered");
	Ok(flate2::Status::StreamEnd)
}

/// outcome of one deserialize_next::<i64>() call
#[derive(Clone, Copy, PartialEq, Eq)]
enum Out {
	Val(i64),
	End,
	Error,
}
fn next(r: &mut Reader<de::read::SliceRead<'_>>) -> Out {
	let x = r.deserialize_next::<i64>();
	let o = match &x {
		Ok(Some(v)) => Out::Val(*v),
		Ok(None) => Out::End,
		Err(_) => Out::Error,
	};
	std::mem::forget(x);
	o
}

/// file body: one block holding the single value `v` (one-byte varint), two-byte header varints
fn one_block(v: i64, sync: &[u8; 16]) -> [u8; 21] {
	let mut f = [0u8; 21];
	f[0] = 0x82; // count = 1, written as the two-byte varint 82 00
	f[1] = 0x00;
	f[2] = 0x82; // byte size = 1, written as 82 00
	f[3] = 0x00;
	f[4] = spec_enc_long(v).0[0];
	f[5..21].copy_from_slice(sync);
	f
}

//@ harness: c17_broken_and_eof_latches
//@   props: C17
//@   tier: quick
//@   kind: complete
//@   fn: object_container_file_encoding::reader::Reader::deserialize_seed_next (state Broken / pretend-EOF latch)
//@   domain: reader in state Broken; reader whose EOF latch is set, over any remaining input
//@   post: Broken => Err once, then the latch is set and every later call is end of stream; latch set => end of stream without touching the input
#[kani::proof]
#[kani::unwind(5)]
#[kani::stub(alloc::fmt::format, stub_format)]
#[kani::stub(flate2::Decompress::decompress, verif_unreachable_inflate)]
fn c17_broken_and_eof_latches() {
	let buf: [u8; 4] = kani::any();
	let sync: [u8; 16] = kani::any();
	let mut r = reader_over!(&buf[..], sync);
	r.reader_state = ReaderState::Broken;
	let a = next(&mut r);
	let b = next(&mut r);
	assert!(a == Out::Error && b == Out::End, "OBL C17.broken.error_once_then_end_of_stream");
	assert!(r.pretend_eof_because_yielded_unrecoverable_error, "OBL C17.broken.latch_set");
	let mut r2 = reader_over!(&buf[..], sync);
	r2.pretend_eof_because_yielded_unrecoverable_error = true;
	let c = next(&mut r2);
	assert!(c == Out::End, "OBL C17.latch.end_of_stream_without_reading");
	std::mem::forget(r);
	std::mem::forget(r2);
}

//@ harness: c17_slice_take_contract
//@   props: C17, C11
//@   tier: quick
//@   kind: complete
//@   fn: de::read::take::{<SliceRead as Take>::take, <SliceReadTake as IntoLeftAfterTake>::into_left_after_take}
//@   domain: every input length 0..=6, every block_size (any usize)
//@   post: block_size > remaining => Err; otherwise the sub-reader holds exactly the first block_size bytes and the rest is left for afterwards; into_left_after_take is Ok iff the sub-reader was fully consumed, and then resumes exactly after the block
#[kani::proof]
#[kani::unwind(9)]
#[kani::stub(alloc::fmt::format, stub_format)]
fn c17_slice_take_contract() {
	use crate::de::read::take::{IntoLeftAfterTake, Take};
	use std::io::BufRead;
	let buf: [u8; 6] = kani::any();
	let len: usize = kani::any();
	kani::assume(len <= 6);
	let n: usize = kani::any();
	let t = de::read::SliceRead::new(&buf[..len]).take(n);
	match t {
		Err(e) => {
			std::mem::forget(e);
			assert!(n > len, "OBL C17.take.err_only_when_block_exceeds_input");
		}
		Ok(mut sub) => {
			assert!(n <= len, "OBL C17.take.block_larger_than_input_is_err");
			let avail = sub.fill_buf().map(|b| b.len()).unwrap_or(usize::MAX);
			assert!(avail == n, "OBL C17.take.sub_reader_limited_to_block_size");
			let eat: usize = kani::any();
			kani::assume(eat <= n);
			sub.consume(eat);
			match sub.into_left_after_take() {
				Ok(mut rest) => {
					assert!(eat == n, "OBL C17.take.leftover_block_data_is_an_error");
					let left = rest.fill_buf().map(|b| b.len()).unwrap_or(usize::MAX);
					assert!(left == len - n, "OBL C17.take.resumes_exactly_after_the_block");
				}
				Err(e) => {
					std::mem::forget(e);
					assert!(eat < n, "OBL C17.take.fully_consumed_block_is_accepted");
				}
			}
		}
	}
}

//@ harness: c17_reader_canary
//@   props: C17
//@   tier: quick
//@   kind: canary
#[kani::proof]
#[kani::unwind(5)]
#[kani::stub(alloc::fmt::format, stub_format)]
#[kani::stub(flate2::Decompress::decompress, verif_unreachable_inflate)]
fn c17_reader_canary() {
	let buf: [u8; 4] = kani::any();
	let sync: [u8; 16] = kani::any();
	let mut r = reader_over!(&buf[..], sync);
	r.reader_state = ReaderState::Broken;
	assert!(next(&mut r) == Out::End, "OBL canary");
	std::mem::forget(r);
}
