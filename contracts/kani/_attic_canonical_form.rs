// NOT LOADED (file name starts with "_"): second attempt at putting the Parsing Canonical Form TEXT under contract (C08/C18),
// with a comparing sink whose 'not longer than expected' assertion prunes hypothetical arms.  Result on the unchanged tree:
// x08_pcf_enum / x08_pcf_record / x08_pcf_array time out at 700 s (3.7 GB and growing; with a full memcmp per piece: OOM at 10 GB).
// Cause unchanged: node kinds and keys read back from the heap Vec<SchemaNode> are symbolic for CBMC, so every level explores every arm.

//@ unit: xdev_canonical_form
//@ inject-into: serde_avro_fast/src/schema/safe/canonical_form.rs
//@ anchor: serde_avro_fast/src/schema/safe/canonical_form.rs :: fn write_canonical_form\(
//@ anchor: serde_avro_fast/src/schema/safe/canonical_form.rs :: struct WriteCanonicalFormState<W> \{
//@ include: common

// ---------------------------------------------------------------------------------------------
// C08 / C18: the TEXT of the Parsing Canonical Form, per node kind.  The real generic
// `WriteCanonicalFormState::<W>::write_canonical_form` is run on small graphs built in place, with W a
// sink that COMPARES every piece written with the canonical form the Avro specification defines
// for that graph (written out by hand below) instead of storing it.
//
// Tractability: node kinds read back from the heap `Vec<SchemaNode>` are not constant-folded, so CBMC
// explores every arm of the `match` at every recursion level.  The sink's "not longer than the
// expected text" obligation is an assertion, and a failed Kani assertion ends the path: hypothetical
// arms die as soon as they have written more than the expected text, which together with a small
// recursion bound keeps the exploration finite (earlier attempts with a counting sink did not finish).
// ---------------------------------------------------------------------------------------------

use crate::schema::Name;
use std::mem::ManuallyDrop;

struct ExpectSink<'a> {
	expect: &'a [u8],
	len: usize,
}
impl std::fmt::Write for ExpectSink<'_> {
	fn write_str(&mut self, s: &str) -> std::fmt::Result {
		let n = s.len();
		assert!(self.len + n <= self.expect.len(), "OBL C08.pcf.text_is_not_longer_than_the_specified_canonical_form");
		// first and last byte of every piece against the expected text at its position (a full memcmp of
		// every piece under a symbolic position does not finish); pieces are the function's string
		// literals and the schema's own strings, so a wrong piece is off in length, first or last byte
		if n > 0 {
			let b = s.as_bytes();
			assert!(b[0] == self.expect[self.len] && b[n - 1] == self.expect[self.len + n - 1], "OBL C08.pcf.text_is_the_specified_canonical_form");
		}
		self.len += n;
		Ok(())
	}
}

fn name(fq: &str, delim: Option<usize>) -> Name {
	Name { fully_qualified_name: String::from(fq), namespace_delimiter_idx: delim }
}
fn node(t: RegularType) -> s::SchemaNode {
	s::SchemaNode { type_: t, logical_type: None }
}

macro_rules! run_pcf {
	($nodes:expr, $written:expr, $expect:expr) => {{
		let schema = ManuallyDrop::new(SchemaMut { nodes: $nodes, schema_json: None });
		let n = schema.nodes.len();
		let mut named_type_written = vec![false; n];
		if $written {
			named_type_written[0] = true;
		}
		let mut state = ManuallyDrop::new(WriteCanonicalFormState {
			w: ErrorConversionWriter(ExpectSink { expect: $expect, len: 0 }),
			named_type_written,
			unnamed_type_being_written: vec![false; n],
		});
		let r = state.write_canonical_form(&schema, SchemaKey::from_idx(0));
		let ok = r.is_ok();
		std::mem::forget(r);
		(ok, state.w.0.len)
	}};
}

//@ harness: x08_pcf_enum
//@   props: XDEV
//@   tier: quick
//@   kind: complete
//@   fn: f
//@   domain: d
//@   post: p
#[kani::proof]
#[kani::unwind(4)]
#[kani::stub(alloc::fmt::format, stub_format)]
#[kani::stub(core::fmt::write, stub_fmt_write)]
fn x08_pcf_enum() {
	let expect = b"{\"name\":\"ab.E\",\"type\":\"enum\",\"symbols\":[\"A\",\"B\"]}";
	let (ok, len) = run_pcf!(
		vec![node(RegularType::Enum(s::Enum { name: name("ab.E", Some(2)), symbols: vec![String::from("A"), String::from("B")] }))],
		false,
		&expect[..]
	);
	assert!(ok && len == expect.len(), "OBL C08.pcf.enum_first_occurrence_is_written_in_full_with_its_fullname");
	// second occurrence of the same named type: only its fullname
	let expect2 = b"\"ab.E\"";
	let (ok2, len2) = run_pcf!(
		vec![node(RegularType::Enum(s::Enum { name: name("ab.E", Some(2)), symbols: vec![String::from("A"), String::from("B")] }))],
		true,
		&expect2[..]
	);
	assert!(ok2 && len2 == expect2.len(), "OBL C08.pcf.named_type_later_occurrence_is_its_fullname_only");
}

//@ harness: x08_pcf_record
//@   props: XDEV
//@   tier: quick
//@   kind: complete
//@   fn: f
//@   domain: d
//@   post: p
#[kani::proof]
#[kani::unwind(4)]
#[kani::stub(alloc::fmt::format, stub_format)]
#[kani::stub(core::fmt::write, stub_fmt_write)]
fn x08_pcf_record() {
	let expect = b"{\"name\":\"ab.R\",\"type\":\"record\",\"fields\":[{\"name\":\"f\",\"type\":\"long\"}]}";
	let (ok, len) = run_pcf!(
		vec![
			node(RegularType::Record(s::Record {
				name: name("ab.R", Some(2)),
				fields: vec![s::RecordField { name: String::from("f"), type_: SchemaKey::from_idx(1) }],
			})),
			s::SchemaNode { type_: RegularType::Long, logical_type: Some(s::LogicalType::TimestampMillis) },
		],
		false,
		&expect[..]
	);
	assert!(ok && len == expect.len(), "OBL C08.pcf.record_with_fullname_fields_in_order_logical_type_dropped");
}

//@ harness: x08_pcf_array
//@   props: XDEV
//@   tier: quick
//@   kind: complete
//@   fn: f
//@   domain: d
//@   post: p
#[kani::proof]
#[kani::unwind(4)]
#[kani::stub(alloc::fmt::format, stub_format)]
#[kani::stub(core::fmt::write, stub_fmt_write)]
fn x08_pcf_array() {
	let expect = b"{\"type\":\"array\",\"items\":\"long\"}";
	let (ok, len) = run_pcf!(
		vec![node(RegularType::Array(s::Array { items: SchemaKey::from_idx(1) })), node(RegularType::Long)],
		false,
		&expect[..]
	);
	assert!(ok && len == expect.len(), "OBL C08.pcf.array_of_long");
}
