// NOT LOADED: the symbolic all-graphs version of the C19 contract (does not finish in 2400 s even for 2-node graphs:
// symbolic indices into the heap-allocated node vector). Replaced by concrete graphs; listed under not_decided.

/// an arbitrary unnamed node: long | array(k) | map(k) | union[k1, k2]  with arbitrary keys 0..=3
/// (2 is dangling in a 2-node graph; self references and cycles of any shape are included)
fn any_node() -> SchemaNode {
	let kind: u8 = kani::any();
	kani::assume(kind < 4);
	let k1: usize = kani::any();
	let k2: usize = kani::any();
	kani::assume(k1 <= 2 && k2 <= 2);
	match kind {
		0 => SchemaNode::new(RegularType::Long),
		1 => SchemaNode::new(RegularType::Array(Array::new(SchemaKey::from_idx(k1)))),
		2 => SchemaNode::new(RegularType::Map(Map::new(SchemaKey::from_idx(k1)))),
		_ => SchemaNode::new(RegularType::Union(Union::new(vec![SchemaKey::from_idx(k1), SchemaKey::from_idx(k2)]))),
	}
}

/// reference: does the graph reachable from node 0 contain a dangling key or a cycle (all nodes
/// here are unnamed, so any cycle is a cycle through unnamed nodes)?  DFS with an explicit stack.
fn graph_is_finite_tree_like(kinds: &[(u8, usize, usize); 2]) -> bool {
	// depth-limited unfolding: a 3-node graph without cycles has paths of length <= 3
	fn ok(kinds: &[(u8, usize, usize); 2], k: usize, fuel: usize) -> bool {
		if k >= 2 || fuel == 0 {
			return false;
		}
		let (kind, a, b) = kinds[k];
		match kind {
			0 => true,
			1 | 2 => ok(kinds, a, fuel - 1),
			_ => ok(kinds, a, fuel - 1) && ok(kinds, b, fuel - 1),
		}
	}
	ok(kinds, 0, 3)
}

//@ harness: c19_canonical_form_total
//@   props: C19, C04
//@   tier: quick
//@   kind: bounded(graphs of 2 nodes over {long, array, map, union of 2}; every key assignment incl. dangling, self-referential and cyclic)
//@   fn: schema::safe::canonical_form::WriteCanonicalFormState::write_canonical_form (generic writer instantiated with a counting sink)
//@   domain: 4^2 kind assignments x 3^4 key assignments (symbolic; key 2 is dangling)
//@   post: returns Ok exactly for the graphs that are finite when unfolded from the root (no dangling key, no cycle through unnamed nodes) and Err otherwise - never a panic, an out-of-bounds index or unbounded recursion (the recursion-unwinding assertion is the termination obligation)
#[kani::proof]
#[kani::unwind(4)]
#[kani::stub(alloc::fmt::format, stub_format)]
#[kani::stub(core::fmt::write, stub_fmt_write)]
fn c19_canonical_form_total() {
	let mut kinds = [(0u8, 0usize, 0usize); 2];
	let mut nodes = Vec::with_capacity(2);
	let mut i = 0;
	while i < 2 {
		let n = any_node();
		kinds[i] = match &n.type_ {
			RegularType::Long => (0, 0, 0),
			RegularType::Array(a) => (1, a.items.idx, 0),
			RegularType::Map(m) => (2, m.values.idx, 0),
			RegularType::Union(u) => (3, u.variants[0].idx, u.variants[1].idx),
			_ => unreachable!(),
		};
		nodes.push(n);
		i += 1;
	}
	let schema = std::mem::ManuallyDrop::new(SchemaMut::from_nodes(nodes));
	let mut state = std::mem::ManuallyDrop::new(WriteCanonicalFormState {
		w: ErrorConversionWriter(CountW(0)),
		named_type_written: vec![false; 2],
		unnamed_type_being_written: vec![false; 2],
	});
	let r = state.write_canonical_form(&schema, SchemaKey::from_idx(0));
	let finite = graph_is_finite_tree_like(&kinds);
	kani::cover!(!finite && kinds[0].0 == 1 && kinds[0].1 == 0, "COV array that contains itself");
	kani::cover!(finite && kinds[0].0 == 3, "COV acyclic union root");
	assert!(r.is_ok() == finite, "OBL C19.canonical_form.ok_iff_finite_unfolding_err_on_dangling_key_or_unnamed_cycle");
	std::mem::forget(r);
}

