#!/bin/bash
# usage: run_seeded_copy.sh <seed dir name> <PROP> [tier] [VERIF_ONLY filter]
# Like run_seeded.sh, but applies the patch to a COPY of /repo (VERIF_REPO) so that /repo itself is never
# touched - usable while a sweep over the unchanged tree is running.  Development aid, not registered.
S=$1; P=$2; T=${3:-quick}; ONLY=${4:-}
C=${VERIF_SCRATCH:-/var/tmp}/seedrepo-$S
rm -rf $C; mkdir -p $C; rsync -a --exclude /target --exclude .git /repo/ $C/
(cd $C && git apply /verif/seeded/$S/patch.diff) || { echo "patch does not apply"; rm -rf $C; exit 3; }
cd /verif
if [ -n "$ONLY" ]; then export VERIF_ONLY=$ONLY; fi
VERIF_REPO=$C VERIF_SEEDED_RUN=1 VERIF_CACHE=${VERIF_SEED_CACHE:-/var/tmp/verif-cache2} ./check $P --tier $T > /verif/logs/seeded-$S-$P.out 2>&1; RC=$?
rm -rf $C
if [ $RC -eq 1 ]; then for f in $(grep -o "replay=[^ ]*" /verif/logs/seeded-$S-$P.out | cut -d= -f2 | head -1); do cp "$f" /verif/seeded/$S/caught-replay.json 2>/dev/null; done; fi
echo "seed=$S check=$P tier=$T exit=$RC"; grep -E "^VIOLATION|^UNDECIDED|^\[" /verif/logs/seeded-$S-$P.out | cut -c1-220 | head -8
