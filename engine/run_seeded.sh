#!/bin/bash
# usage: run_seeded.sh <seed dir name> <PROP> [tier] [VERIF_ONLY filter]
# applies /verif/seeded/<seed>/patch.diff to /repo, runs ./check PROP, reverts /repo. Records the outcome.
S=$1; P=$2; T=${3:-quick}; ONLY=${4:-}
cd /repo && git diff --quiet || { echo "/repo not clean"; exit 3; }
git -C /repo apply /verif/seeded/$S/patch.diff || { echo "patch does not apply"; exit 3; }
cd /verif
if [ -n "$ONLY" ]; then export VERIF_ONLY=$ONLY; fi
VERIF_SEEDED_RUN=1 ./check $P --tier $T > /verif/logs/seeded-$S-$P.out 2>&1; RC=$?
git -C /repo checkout -- .
if [ $RC -eq 1 ]; then for f in $(grep -o "replay=[^ ]*" /verif/logs/seeded-$S-$P.out | cut -d= -f2 | head -1); do cp "$f" /verif/seeded/$S/caught-replay.json 2>/dev/null; done; fi
echo "seed=$S check=$P tier=$T exit=$RC"; grep -E "^VIOLATION|^UNDECIDED|^\[" /verif/logs/seeded-$S-$P.out | cut -c1-220 | head -8
