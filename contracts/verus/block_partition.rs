// Verus unit (lemma only, no extracted code): lifts the ONE-STEP contracts of the block reader
// (Kani: c03_read_block_len_step, c04_has_more_step - proved from an arbitrary reader state - and the
// per-kind element decode contracts) to "every legal block layout of a value list decodes to that
// list" (C03), for ANY number of blocks, ANY block sizes, each block in positive- or negative-count form.
//
// The step contract, abstracted to tokens (the byte-level facts - a header is a varint count, a negative
// count is followed by a byte size that is consumed and dropped, an element occupies exactly its own
// encoding - are the Kani obligations):
//   has_more with countdown > 0      : returns true, countdown - 1, input untouched
//   has_more with countdown == 0     : reads one header token h
//                                        h == 0  -> returns false (end of sequence)
//                                        h != 0  -> countdown = |h| - 1, returns true
//   next_element after `true`        : consumes exactly one element token and yields its value
use vstd::prelude::*;
verus! {

pub enum Tok {
    Header(int),   // block header: element count, negative = "followed by byte size" form (already dropped)
    Elem(int),     // one encoded element, identified with its value
}

/// layout of one block: its header in either sign, then its elements
pub open spec fn block(vals: Seq<int>, negative_form: bool) -> Seq<Tok>
    recommends vals.len() > 0,
{
    seq![Tok::Header(if negative_form { -(vals.len() as int) } else { vals.len() as int })]
        + vals.map_values(|v: int| Tok::Elem(v))
}

/// a legal encoding of the value list flatten(blocks): any partition into non-empty blocks, any forms, then End (count 0)
pub open spec fn layout(blocks: Seq<(Seq<int>, bool)>) -> Seq<Tok>
    decreases blocks.len(),
{
    if blocks.len() == 0 { seq![Tok::Header(0)] } else { block(blocks[0].0, blocks[0].1) + layout(blocks.drop_first()) }
}

pub open spec fn flatten(blocks: Seq<(Seq<int>, bool)>) -> Seq<int>
    decreases blocks.len(),
{
    if blocks.len() == 0 { Seq::empty() } else { blocks[0].0 + flatten(blocks.drop_first()) }
}

/// iterate the step contract: the values produced by `while has_more() { next_element() }` from a
/// reader whose countdown is `cur` over `input`; None = error (malformed / premature end)
pub open spec fn run(cur: nat, input: Seq<Tok>) -> Option<(Seq<int>, Seq<Tok>)>
    decreases input.len(), cur,
{
    if cur > 0 {
        // inside a block: the next token must be an element
        if input.len() == 0 { None } else {
            match input[0] {
                Tok::Elem(v) => match run((cur - 1) as nat, input.drop_first()) {
                    Some((vs, rest)) => Some((seq![v] + vs, rest)),
                    None => None,
                },
                Tok::Header(_) => None,
            }
        }
    } else if input.len() == 0 { None } else {
        match input[0] {
            Tok::Header(h) => if h == 0 { Some((Seq::empty(), input.drop_first())) } else {
                // countdown = |h|; the first element follows
                run((if h < 0 { -h } else { h }) as nat, input.drop_first())
            },
            Tok::Elem(_) => None,
        }
    }
}

/// inside a block: `vals` elements followed by anything decode to vals ++ (whatever the rest decodes to)
proof fn lemma_run_elems(vals: Seq<int>, tail: Seq<Tok>)
    ensures
        run(vals.len(), vals.map_values(|v: int| Tok::Elem(v)) + tail) == match run(0, tail) {
            Some((vs, rest)) => Some((vals + vs, rest)),
            None => None::<(Seq<int>, Seq<Tok>)>,
        },
    decreases vals.len(),
{
    let toks = vals.map_values(|v: int| Tok::Elem(v));
    if vals.len() == 0 {
        assert(toks + tail =~= tail);
        match run(0, tail) {
            Some((vs, rest)) => { assert(vals + vs =~= vs); }
            None => {}
        }
    } else {
        let input = toks + tail;
        assert(input[0] == Tok::Elem(vals[0]));
        assert(input.drop_first() =~= vals.drop_first().map_values(|v: int| Tok::Elem(v)) + tail);
        lemma_run_elems(vals.drop_first(), tail);
        match run(0, tail) {
            Some((vs, rest)) => { assert(seq![vals[0]] + (vals.drop_first() + vs) =~= vals + vs); }
            None => {}
        }
    }
}

/// MAIN LEMMA (C03): every legal layout of a list of non-empty blocks decodes to the flattened list,
/// consuming the whole encoding, whatever the partition and whichever form each block is written in.
pub proof fn lemma_any_block_layout_decodes(blocks: Seq<(Seq<int>, bool)>)
    requires forall|i: int| 0 <= i < blocks.len() ==> (#[trigger] blocks[i]).0.len() > 0,
    ensures run(0, layout(blocks)) == Some((flatten(blocks), Seq::<Tok>::empty())),
    decreases blocks.len(),
{
    if blocks.len() == 0 {
        assert(layout(blocks).drop_first() =~= Seq::<Tok>::empty());
    } else {
        let (vals, neg) = blocks[0];
        let tail = layout(blocks.drop_first());
        let input = layout(blocks);
        let n = vals.len() as int;
        let h = if neg { -n } else { n };
        assert(input[0] == Tok::Header(h));
        assert(input.drop_first() =~= vals.map_values(|v: int| Tok::Elem(v)) + tail);
        assert forall|i: int| 0 <= i < blocks.drop_first().len() implies (#[trigger] blocks.drop_first()[i]).0.len() > 0 by {
            assert(blocks.drop_first()[i] == blocks[i + 1]);
        }
        lemma_any_block_layout_decodes(blocks.drop_first());
        lemma_run_elems(vals, tail);
        assert(vals + flatten(blocks.drop_first()) =~= flatten(blocks));
    }
}

} // verus!
