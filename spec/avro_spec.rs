// ---------------------------------------------------------------------------
// Executable specification of the Avro 1.11 binary encoding, written from the
// specification text and independent of the crate under test (no call into
// serde_avro_fast or integer-encoding).  Inlined into every Kani contract
// module as the oracle of its postconditions; the same definitions are the
// `spec fn`s of the Verus lemmas (contracts/verus/*.rs), where they are proved
// to have the algebraic properties the composition arguments need.
// Fixed-size buffers are used instead of Vec so that CBMC does not have to
// model reallocation inside the oracle.
// ---------------------------------------------------------------------------

/// Spec: "int and long values are written using variable-length zig-zag coding".
/// zig-zag maps 0,-1,1,-2,2.. to 0,1,2,3,4..  (written arithmetically, not with the
/// shift/xor trick the implementation uses)
fn spec_zigzag(n: i64) -> u64 {
	if n >= 0 {
		(n as u64) * 2
	} else {
		// -(n+1) cannot overflow
		((-(n + 1)) as u64) * 2 + 1
	}
}
fn spec_unzigzag(z: u64) -> i64 {
	if z % 2 == 0 {
		(z / 2) as i64
	} else {
		-((z / 2) as i64) - 1
	}
}

/// Base-128 little-endian varint of an unsigned value: 7 bits per byte, MSB set on all but the last
fn spec_enc_varint(mut z: u64) -> ([u8; 10], usize) {
	let mut out = [0u8; 10];
	let mut i = 0;
	loop {
		let low = (z % 128) as u8;
		z /= 128;
		if z == 0 {
			out[i] = low;
			i += 1;
			break;
		}
		out[i] = low + 128;
		i += 1;
	}
	(out, i)
}
fn spec_enc_long(n: i64) -> ([u8; 10], usize) {
	spec_enc_varint(spec_zigzag(n))
}

/// Decode a base-128 varint prefix of `b` (at most 10 groups).  None = no terminator within
/// 10 bytes / end of input, or bits beyond 64.
fn spec_dec_varint(b: &[u8]) -> Option<(u64, usize)> {
	let mut v: u64 = 0;
	let mut i = 0;
	while i < 10 {
		if i >= b.len() {
			return None;
		}
		let g = (b[i] % 128) as u64;
		if i == 9 && g > 1 {
			return None;
		}
		v += g << (7 * i);
		if b[i] < 128 {
			return Some((v, i + 1));
		}
		i += 1;
	}
	None
}
fn spec_dec_long(b: &[u8]) -> Option<(i64, usize)> {
	match spec_dec_varint(b) {
		Some((z, n)) => Some((spec_unzigzag(z), n)),
		None => None,
	}
}
fn spec_dec_int(b: &[u8]) -> Option<(i32, usize)> {
	match spec_dec_long(b) {
		Some((v, n)) if v >= i32::MIN as i64 && v <= i32::MAX as i64 => Some((v as i32, n)),
		_ => None,
	}
}

/// CRC-64-AVRO: one input byte, bit by bit (specification's `fingerprint64` with the table unrolled)
const SPEC_EMPTY64: u64 = 0xc15d213aa4d7a795;
fn spec_crc_step(state: u64, byte: u8) -> u64 {
	let mut s = state ^ (byte as u64);
	let mut i = 0;
	while i < 8 {
		s = if s % 2 == 1 { (s / 2) ^ SPEC_EMPTY64 } else { s / 2 };
		i += 1;
	}
	s
}

/// Value denoted by a big-endian two's-complement byte string of at most 16 bytes
/// (the unscaled value of an Avro `decimal`); empty string denotes 0.
fn spec_twos_complement(b: &[u8]) -> i128 {
	let mut buf = [0u8; 16];
	if b.len() > 0 && b[0] >= 128 {
		buf = [0xFFu8; 16];
	}
	let mut i = 0;
	while i < b.len() && i < 16 {
		buf[16 - b.len() + i] = b[i];
		i += 1;
	}
	i128::from_be_bytes(buf)
}
/// Does `n` fit in a two's-complement field of `size` bytes (size <= 16)?
fn spec_fits_twos_complement(n: i128, size: usize) -> bool {
	if size >= 16 {
		return true;
	}
	if size == 0 {
		return n == 0;
	}
	let bits = (8 * size) as u32;
	let lim: i128 = 1i128 << (bits - 1);
	n >= -lim && n < lim
}

/// Spec: "a float is written as 4 bytes ... little-endian format" of the IEEE 754 bit pattern
fn spec_enc_f32_bits(bits: u32) -> [u8; 4] {
	[(bits % 256) as u8, ((bits / 256) % 256) as u8, ((bits / 65536) % 256) as u8, (bits / 16777216) as u8]
}
fn spec_enc_f64_bits(bits: u64) -> [u8; 8] {
	let mut out = [0u8; 8];
	let mut i = 0;
	let mut b = bits;
	while i < 8 {
		out[i] = (b % 256) as u8;
		b /= 256;
		i += 1;
	}
	out
}

/// Expected encoding of an integer-valued datum for `int`-like nodes (int, date, time-millis)
fn spec_enc_as_int(v: Option<i128>) -> Option<([u8; 10], usize)> {
	match v {
		Some(w) if w >= i32::MIN as i128 && w <= i32::MAX as i128 => Some(spec_enc_long(w as i64)),
		_ => None,
	}
}
/// ... and for `long`-like nodes (long, time-micros, timestamp-*)
fn spec_enc_as_long(v: Option<i128>) -> Option<([u8; 10], usize)> {
	match v {
		Some(w) if w >= i64::MIN as i128 && w <= i64::MAX as i128 => Some(spec_enc_long(w as i64)),
		_ => None,
	}
}

/// Object container file block: count, byte size, data, 16-byte sync marker (null codec).
/// Returns the block in a fixed buffer (data <= 8 bytes in the harnesses).
fn spec_container_block(count: i64, data: &[u8], sync: &[u8; 16]) -> ([u8; 48], usize) {
	let mut out = [0u8; 48];
	let mut k = 0;
	let (c, cn) = spec_enc_long(count);
	let mut i = 0;
	while i < cn {
		out[k] = c[i];
		k += 1;
		i += 1;
	}
	let (l, ln) = spec_enc_long(data.len() as i64);
	let mut i = 0;
	while i < ln {
		out[k] = l[i];
		k += 1;
		i += 1;
	}
	let mut i = 0;
	while i < data.len() {
		out[k] = data[i];
		k += 1;
		i += 1;
	}
	let mut i = 0;
	while i < 16 {
		out[k] = sync[i];
		k += 1;
		i += 1;
	}
	(out, k)
}
