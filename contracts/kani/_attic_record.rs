// NOT LOADED: unit `record` (C13/C14), removed under the fallback rule. Even a single CONCRETE out-of-order
// presentation (c, then a; b omitted) of a 3-field record does not finish in 600 s, the symbolic version not in 3000 s:
// the pooled Vec<Option<Vec<u8>>> / Vec<Vec<u8>> manipulation (resize, take, push, drain) on heap objects defeats
// CBMC's symbolic execution. The contracts below are what was attempted; C13 and C14 are not claimed.

//@ unit: record
//@ inject-into: serde_avro_fast/src/ser/serializer/struct_or_map.rs
//@ requires-unit: schema_helper
//@ requires-unit: ser_cells
//@ anchor: serde_avro_fast/src/ser/serializer/struct_or_map.rs :: fn field_idx<'s>\(
//@ anchor: serde_avro_fast/src/ser/serializer/struct_or_map.rs :: fn serialize_record_value<'r, 'c, 's, W: Write, T: \?Sized>\(
//@ anchor: serde_avro_fast/src/ser/serializer/struct_or_map.rs :: fn end\(mut self\) -> Result<\(\), SerError> \{
//@ anchor: serde_avro_fast/src/ser/serializer/struct_or_map.rs :: impl<'r, 'c, 's, W> Drop for KindRecord<'r, 'c, 's, W> \{
//@ include: spec
//@ include: common

// ---------------------------------------------------------------------------------------------
// C13 (field-order independence) and C14 (pooled buffers stay clean) on the real record
// machinery: SerializeStruct::serialize_field -> field_idx -> serialize_record_value, end(), Drop.
// record R2 { a: long, b: null, c: long } (quick) / R { a: long, b: ["long","null"], c: long } (thorough).
// ---------------------------------------------------------------------------------------------

use crate::schema::self_referential::__verif_schema_helper::{record_of, N_LONG, N_NULL, RECORD_ABC, RECORD_ANC, UNION_LONG_NULL};
use crate::ser::__verif_ser_cells::*;
use std::mem::ManuallyDrop;

/// representation invariant of the configuration's buffer pools (C14)
fn pool_wf(cfg: &SerializerConfig<'_>) -> bool {
	let mut ok = true;
	let mut i = 0;
	while i < cfg.buffers.field_reordering_buffers.len() {
		if !cfg.buffers.field_reordering_buffers[i].is_empty() {
			ok = false;
		}
		i += 1;
	}
	let mut i = 0;
	while i < cfg.buffers.field_reordering_super_buffers.len() {
		if !cfg.buffers.field_reordering_super_buffers[i].is_empty() {
			ok = false;
		}
		i += 1;
	}
	ok
}

const NAMES: [&str; 4] = ["a", "b", "c", "x"];
/// quick tier: field b is an always-null field (record R2); the union-typed b (record R) needs the
/// real union arm and is heavier: see the *_union_field harnesses (thorough)
const B_IS_UNION: bool = false;
/// number of (name, value) pairs presented: with 3 fields of which b is omittable, 2 pairs already
/// cover in-order, out-of-order (c then a), omission, duplicate, unknown and missing-required
const MAX_PRESENTED: usize = 2;

/// One `serialize_field(name, value)` step.
///
/// ASSUMED contract on `field_idx` (A2'): it is NOT executed here.  Its name->index table is a
/// HashMap behind SipHash; even its in-order fast path cannot be separated from the hashed path for
/// CBMC (measured: the record node is a composite static whose contents symex does not constant-fold,
/// so `per_name_lookup.get` - SipHash, hashbrown probing with SIMD group matching - is explored on
/// every call and no harness finishes in 900 s), and Kani cannot stub `HashMap::get` (impl-level
/// generics do not unify with a free function's).  What is assumed, restated from its text:
///   no field expected any more        => Err
///   name is the next expected field   => (current_idx, that field's schema)
///   otherwise lookup(name) = true index j, or Err for an unknown name;
///       j > current_idx => (j, field j's schema);  j < current_idx => Err(duplicate);  j == current_idx: panic (asserted unreachable)
/// Everything after it - serialize_record_value (fast path, buffering into pooled buffers, flushing
/// contiguous buffered successors), end() (filling omitted nullable fields, error on missing
/// required), Drop (returning buffers to the pool) - is the repository's code.
fn present_one<W: Write>(
	s: &mut SerializeStructAsRecordOrMapOrDuration<'_, '_, 'static, W>,
	want: usize,
	value: &i64,
	b_is_union: bool,
) -> Result<(), SerError> {
	match &mut s.kind {
		Kind::Record(KindRecord { serializer_state, record_state }) => {
			let cur = record_state.current_idx;
			if record_state.expected_fields.as_slice().is_empty() {
				return Err(SerError::new("no field expected any more"));
			}
			assert!(cur < 3, "OBL C13.record.current_idx_in_range_while_fields_are_expected");
			let idx = if want == cur {
				cur
			} else if want > 2 {
				return Err(SerError::new("unknown field"));
			} else if want > cur {
				want
			} else {
				return Err(SerError::new("same field twice"));
			};
			// literal nodes per index so that CBMC sees a constant node kind at each call site
			match idx {
				0 => serialize_record_value(serializer_state, record_state, 0, &N_LONG, value),
				1 if b_is_union => serialize_record_value(serializer_state, record_state, 1, &UNION_LONG_NULL, value),
				1 => serialize_record_value(serializer_state, record_state, 1, &N_NULL, &()),
				_ => serialize_record_value(serializer_state, record_state, 2, &N_LONG, value),
			}
		}
		_ => unreachable!(),
	}
}

/// Present up to three (name, value) pairs chosen by `which` (3 = unknown field "x"), then end().
fn present(
	cfg: &mut SerializerConfig<'static>,
	n: usize,
	which: [usize; 3],
	vals: [i64; 3],
	b_is_union: bool,
) -> Result<Vec<u8>, SerError> {
	let mut state = SerializerState::from_writer(Vec::new(), cfg);
	let res = {
		let mut s = SerializeStructAsRecordOrMapOrDuration::record(
			&mut state,
			record_of(if b_is_union { &RECORD_ABC } else { &RECORD_ANC }),
		);
		let mut i = 0;
		let mut err = None;
		while i < n {
			let r = present_one(&mut s, which[i], &vals[i], b_is_union);
			if let Err(e) = r {
				err = Some(e);
				break;
			}
			i += 1;
		}
		match err {
			Some(e) => {
				drop(s); // the real Drop impl returns the buffers to the pool
				Err(e)
			}
			None => s.end(),
		}
	};
	match res {
		Ok(()) => Ok(state.into_writer()),
		Err(e) => {
			std::mem::forget(state);
			Err(e)
		}
	}
}

/// reference: what the specification says the record's bytes are, or None if the presentation
/// is not a valid one (unknown field, duplicate, missing non-nullable field)
fn reference(n: usize, which: [usize; 3], vals: [i64; 3], b_is_union: bool) -> Option<([u8; 4], usize)> {
	let mut seen = [false; 3];
	let mut v = [0i64; 3];
	let mut i = 0;
	while i < n {
		if which[i] > 2 || seen[which[i]] {
			return None;
		}
		seen[which[i]] = true;
		v[which[i]] = vals[i];
		i += 1;
	}
	if !seen[0] || !seen[2] {
		return None;
	}
	let mut out = [0u8; 4];
	let mut k = 0;
	out[k] = spec_enc_long(v[0]).0[0];
	k += 1;
	if b_is_union {
		if seen[1] {
			out[k] = 0; // branch 0 ("long") of ["long","null"]
			k += 1;
			out[k] = spec_enc_long(v[1]).0[0];
			k += 1;
		} else {
			out[k] = 2; // branch 1 ("null"): NOT simply a zero byte
			k += 1;
		}
	} // a `null` field encodes as zero bytes whether presented or omitted
	out[k] = spec_enc_long(v[2]).0[0];
	k += 1;
	Some((out, k))
}

fn symbolic_presentation() -> (usize, [usize; 3], [i64; 3]) {
	let n: usize = kani::any();
	kani::assume(n <= MAX_PRESENTED);
	let which: [usize; 3] = kani::any();
	kani::assume(which[0] <= 3 && which[1] <= 3 && which[2] <= 3);
	let vals: [i64; 3] = kani::any();
	// one-byte varints: this harness is about ORDER; value encoding is C02's subject
	kani::assume(vals[0] >= -64 && vals[0] < 64 && vals[1] >= -64 && vals[1] < 64 && vals[2] >= -64 && vals[2] < 64);
	(n, which, vals)
}

//@ harness: c13_record_any_order
//@   props: C13, C14, C02
//@   tier: quick
//@   kind: bounded(record of 3 fields a: long, b: null, c: long; every presentation of <= 3 (name, value) pairs over names {a,b,c,x}: all orders, omissions, duplicates, unknown; values one-byte varints); field_idx replaced by its assumed contract (A2'), see present_one
//@   fn: ser::serializer::struct_or_map::{serialize_record_value, SerializeStructAsRecordOrMapOrDuration::{record, end}, KindRecord::drop}
//@   domain: 4^3 name sequences x lengths 0..=3 x symbolic values - exhaustive for this record by symbolic choice
//@   post: Ok(bytes) iff no unknown name, no duplicate, a and c present; then bytes == schema-order encoding with null for omitted b; otherwise Err; never a panic (the "should have hit first.name" panic and the `is_empty` pool assertions are obligations); afterwards every pooled buffer is empty (pool_wf)
#[kani::proof]
#[kani::unwind(6)]
#[kani::stub(alloc::fmt::format, stub_format)]
#[kani::stub(DatumSerializer::serialize_union_unnamed, DatumSerializer::verif_unreachable_union_arm)]
fn c13_record_any_order() {
	let (n, which, vals) = symbolic_presentation();
	let mut cfg = ManuallyDrop::new(SerializerConfig::new_with_optional_schema(None));
	let r = present(&mut cfg, n, which, vals, B_IS_UNION);
	let want = reference(n, which, vals, B_IS_UNION);
	kani::cover!(r.is_ok() && n == 3 && which[0] == 2 && which[1] == 1 && which[2] == 0, "COV reverse order accepted");
	kani::cover!(r.is_ok() && n == 2 && which[0] == 2, "COV b omitted, c before a");
	kani::cover!(r.is_err() && n == 3 && which[0] == 1 && which[1] == 1, "COV duplicate rejected");
	match (&r, want) {
		(Ok(bytes), Some((e, k))) => {
			assert!(bytes.len() == k && bytes[..] == e[..k], "OBL C13.record.bytes_are_schema_order_encoding_whatever_the_presentation_order");
		}
		(Ok(_), None) => assert!(false, "OBL C13.record.unknown_duplicate_or_missing_required_field_must_be_err"),
		(Err(_), Some(_)) => assert!(false, "OBL C13.record.valid_presentation_must_serialize"),
		(Err(_), None) => {}
	}
	assert!(pool_wf(&cfg), "OBL C14.pool.every_pooled_buffer_is_empty_after_success_or_failure");
	std::mem::forget(r);
}

//@ harness: c13_record_any_order_union_field
//@   props: C13, C14
//@   tier: thorough
//@   kind: bounded(record of 3 fields a: long, b: ["long","null"], c: long; every presentation of <= 3 pairs; values one-byte varints); field_idx replaced by its assumed contract (A2')
//@   fn: ser::serializer::struct_or_map::{serialize_record_value, end (omitted nullable union field => null branch discriminant), KindRecord::drop} + DatumSerializer::serialize_union_unnamed
//@   domain: as c13_record_any_order with a nullable-union field
//@   post: as c13_record_any_order; an omitted b is encoded as the union's null branch, a presented b as branch 1 + long
#[kani::proof]
#[kani::unwind(6)]
#[kani::stub(alloc::fmt::format, stub_format)]
fn c13_record_any_order_union_field() {
	let (n, which, vals) = symbolic_presentation();
	let mut cfg = ManuallyDrop::new(SerializerConfig::new_with_optional_schema(None));
	let r = present(&mut cfg, n, which, vals, true);
	let want = reference(n, which, vals, true);
	match (&r, want) {
		(Ok(bytes), Some((e, k))) => {
			assert!(bytes.len() == k && bytes[..] == e[..k], "OBL C13.record.bytes_are_schema_order_encoding_whatever_the_presentation_order");
		}
		(Ok(_), None) => assert!(false, "OBL C13.record.unknown_duplicate_or_missing_required_field_must_be_err"),
		(Err(_), Some(_)) => assert!(false, "OBL C13.record.valid_presentation_must_serialize"),
		(Err(_), None) => {}
	}
	assert!(pool_wf(&cfg), "OBL C14.pool.every_pooled_buffer_is_empty_after_success_or_failure");
	std::mem::forget(r);
}

//@ harness: c14_reuse_after_any_history
//@   props: C14
//@   tier: quick
//@   kind: bounded(history of one arbitrary presentation (success or failure, as in c13) followed by a probe; record of 3 fields)
//@   fn: ser::serializer::struct_or_map (pop of pooled buffers under `assert!(v.is_empty())`, Drop, end) with a reused SerializerConfig
//@   domain: every first presentation as in c13_record_any_order (incl. failing ones: unknown field / duplicate at any position), then an out-of-order valid probe (c, b, a)
//@   post: the probe on the used configuration returns exactly what it returns on a fresh configuration (schema-order bytes), and never trips an internal assertion
#[kani::proof]
#[kani::unwind(6)]
#[kani::stub(alloc::fmt::format, stub_format)]
#[kani::stub(DatumSerializer::serialize_union_unnamed, DatumSerializer::verif_unreachable_union_arm)]
fn c14_reuse_after_any_history() {
	let (n, which, vals) = symbolic_presentation();
	let mut cfg = ManuallyDrop::new(SerializerConfig::new_with_optional_schema(None));
	let first = present(&mut cfg, n, which, vals, B_IS_UNION);
	kani::cover!(first.is_err() && n == 3, "COV history with a failure at the last field");
	kani::cover!(first.is_ok() && which[0] != 0, "COV history with buffering");
	std::mem::forget(first);
	let pv: [i64; 3] = kani::any();
	kani::assume(pv[0] >= -64 && pv[0] < 64 && pv[1] >= -64 && pv[1] < 64 && pv[2] >= -64 && pv[2] < 64);
	let probe = present(&mut cfg, 3, [2, 1, 0], pv, B_IS_UNION);
	let want = reference(3, [2, 1, 0], pv, B_IS_UNION);
	match (&probe, want) {
		(Ok(bytes), Some((e, k))) => assert!(bytes.len() == k && bytes[..] == e[..k], "OBL C14.reuse.probe_bytes_equal_fresh_configuration_bytes"),
		_ => assert!(false, "OBL C14.reuse.probe_must_succeed_on_a_used_configuration"),
	}
	assert!(pool_wf(&cfg), "OBL C14.pool.every_pooled_buffer_is_empty_after_reuse");
	std::mem::forget(probe);
}

//@ harness: c13_record_canary
//@   props: C13, C14
//@   tier: quick
//@   kind: canary
#[kani::proof]
#[kani::unwind(6)]
#[kani::stub(alloc::fmt::format, stub_format)]
#[kani::stub(DatumSerializer::serialize_union_unnamed, DatumSerializer::verif_unreachable_union_arm)]
fn c13_record_canary() {
	let (n, which, vals) = symbolic_presentation();
	let mut cfg = ManuallyDrop::new(SerializerConfig::new_with_optional_schema(None));
	let r = present(&mut cfg, n, which, vals, B_IS_UNION);
	assert!(r.is_err(), "OBL canary");
	std::mem::forget(r);
}

