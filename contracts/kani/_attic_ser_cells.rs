// NOT LOADED: removed from unit ser_cells under the fallback rule (array<long> through the real BlockWriter does not finish in 900 s).

/// a sequence that ADVERTISES `advertised` elements but presents `actual` (a Serialize impl that
/// violates / respects serde's length contract)
struct Seq2 {
	advertised: Option<usize>,
	actual: usize,
	vals: [i64; 2],
}
impl Serialize for Seq2 {
	fn serialize<S: Serializer>(&self, s: S) -> Result<S::Ok, S::Error> {
		let mut seq = s.serialize_seq(self.advertised)?;
		let mut i = 0;
		while i < self.actual {
			seq.serialize_element(&self.vals[i])?;
			i += 1;
		}
		seq.end()
	}
}

//@ harness: c02_array_blocks
//@   props: C02, C01
//@   tier: quick
//@   kind: bounded(0..=2 elements, element values one-byte varints; advertised length None or 0..=2)
//@   fn: ser::serializer::{DatumSerializer::serialize_seq, blocks::BlockWriter::{new, signal_next_record, end}, seq_or_tuple::SerializeSeqOrTupleOrTupleStruct::{serialize_element, end}} (node array<long>)
//@   domain: every (advertised, actual) pair in the bound, symbolic element values
//@   post: Ok iff the advertised length (if any) is not larger than the presented one; then the bytes are a valid Avro array encoding of exactly the presented elements: blocks with positive counts, elements in order, terminated by a zero count; fewer elements than advertised => Err (the already emitted block count would lie)
#[kani::proof]
#[kani::unwind(6)]
#[kani::stub(alloc::fmt::format, stub_format)]
#[kani::stub(DatumSerializer::serialize_union_unnamed, DatumSerializer::verif_unreachable_union_arm)]
fn c02_array_blocks() {
	let actual: usize = kani::any();
	kani::assume(actual <= 2);
	let advertised: Option<usize> = if kani::any() { Some(kani::any()) } else { None };
	if let Some(a) = advertised {
		kani::assume(a <= 2);
	}
	let vals: [i64; 2] = kani::any();
	kani::assume(vals[0] >= -64 && vals[0] < 64 && vals[1] >= -64 && vals[1] < 64);
	let v = Seq2 { advertised, actual, vals };
	let mut config = ManuallyDrop::new(SerializerConfig::new_with_optional_schema(None));
	let mut state = ManuallyDrop::new(SerializerState::from_writer(Vec::new(), &mut config));
	let r = v.serialize(state.serializer_overriding_schema_root(&ARRAY_OF_LONG));
	let out = &state.writer;
	let adv = advertised.unwrap_or(0);
	kani::cover!(r.is_ok() && adv == 1 && actual == 2, "COV more elements than advertised: extra block of one");
	if adv > actual {
		assert!(r.is_err(), "OBL C02.array.fewer_elements_than_advertised_must_be_err");
	} else {
		assert!(r.is_ok(), "OBL C01.array.conforming_sequence_must_serialize");
		// reference decoding of the output per the specification: blocks of positive count, then 0
		let mut pos = 0usize;
		let mut seen = 0usize;
		let mut ok = true;
		let mut guard = 0;
		while guard < 4 {
			if pos >= out.len() {
				ok = false;
				break;
			}
			let c = spec_unzigzag(out[pos] as u64);
			pos += 1;
			if c == 0 {
				break;
			}
			if c < 0 || out[pos - 1] >= 0x80 {
				ok = false;
				break;
			}
			let mut j = 0;
			while j < c && j < 3 {
				if pos >= out.len() || seen >= actual || out[pos] != spec_enc_long(vals[seen]).0[0] {
					ok = false;
					break;
				}
				pos += 1;
				seen += 1;
				j += 1;
			}
			guard += 1;
		}
		assert!(ok && seen == actual && pos == out.len(), "OBL C02.array.output_is_a_valid_block_encoding_of_exactly_the_presented_elements");
	}
	std::mem::forget(r);
}


// ---- also removed (do not finish in 600 s: after serialize_seq returns, the sequence serializer's Kind is no longer
// constant for CBMC and every arm of serialize_element - incl. the array arm's generic element serializer - is explored)

/// sequence of `n` u32 (for duration) / u8 (for fixed, bytes) elements advertised as `adv`
struct SeqOf<T: Copy + Serialize> {
	adv: Option<usize>,
	n: usize,
	vals: [T; 4],
}
impl<T: Copy + Serialize> Serialize for SeqOf<T> {
	fn serialize<S: Serializer>(&self, s: S) -> Result<S::Ok, S::Error> {
		let mut seq = s.serialize_seq(self.adv)?;
		let mut i = 0;
		while i < self.n {
			seq.serialize_element(&self.vals[i])?;
			i += 1;
		}
		seq.end()
	}
}
fn ser_value<T: Serialize>(node: &'static SchemaNode<'static>, allow_slow: bool, v: &T) -> Result<Vec<u8>, SerError> {
	let mut config = ManuallyDrop::new(SerializerConfig::new_with_optional_schema(None));
	if allow_slow {
		config.allow_slow_sequence_to_bytes();
	}
	let mut state = ManuallyDrop::new(SerializerState::from_writer(Vec::new(), &mut config));
	match v.serialize(state.serializer_overriding_schema_root(node)) {
		Ok(()) => Ok(ManuallyDrop::into_inner(state).into_writer()),
		Err(e) => Err(e),
	}
}

//@ harness: c02_seq_to_duration
//@   props: C02, C01
//@   tier: quick
//@   kind: complete
//@   fn: ser::serializer::{DatumSerializer::serialize_seq, seq_or_tuple::SerializeSeqOrTupleOrTupleStruct::{serialize_element, end}} (Kind::Duration)
//@   domain: sequences of 0..=4 u32 elements (all values), advertised length None or 0..=4
//@   post: Ok iff exactly 3 elements are presented and the advertised length (if any) is 3; then 12 bytes = three little-endian u32 in order; any other count / advertisement => Err
#[kani::proof]
#[kani::unwind(7)]
#[kani::stub(alloc::fmt::format, stub_format)]
fn c02_seq_to_duration() {
	static DU: SchemaNode<'static> = SchemaNode::Duration;
	let n: usize = kani::any();
	kani::assume(n <= 4);
	let adv: Option<usize> = if kani::any() { Some(kani::any()) } else { None };
	if let Some(a) = adv {
		kani::assume(a <= 4);
	}
	let vals: [u32; 4] = kani::any();
	let r = ser_value(&DU, false, &SeqOf { adv, n, vals });
	let valid = n == 3 && adv.map_or(true, |a| a == 3);
	kani::cover!(valid && adv.is_none(), "COV unadvertised triple");
	match &r {
		Ok(o) => {
			assert!(valid, "OBL C02.duration.wrong_number_of_components_must_be_err");
			assert!(o.len() == 12 && o[0..4] == spec_enc_f32_bits(vals[0]) && o[4..8] == spec_enc_f32_bits(vals[1]) && o[8..12] == spec_enc_f32_bits(vals[2]),
				"OBL C02.duration.three_little_endian_u32");
		}
		Err(_) => assert!(!valid, "OBL C01.duration.triple_must_serialize"),
	}
	std::mem::forget(r);
}

//@ harness: c02_seq_to_fixed
//@   props: C02, C01
//@   tier: quick
//@   kind: complete
//@   fn: ser::serializer::{DatumSerializer::serialize_seq, seq_or_tuple::{SerializeSeqOrTupleOrTupleStruct (Kind::Fixed), ExtractU8Serializer}} (node fixed(3), slow sequence-to-bytes allowed / not allowed)
//@   domain: sequences of 0..=4 u8 elements, advertised length None or 0..=4, allow_slow_sequence_to_bytes on/off
//@   post: Ok iff allowed, exactly 3 elements presented, advertised length (if any) 3; then exactly those 3 bytes; otherwise Err (too few / too many elements never yield Ok)
#[kani::proof]
#[kani::unwind(7)]
#[kani::stub(alloc::fmt::format, stub_format)]
fn c02_seq_to_fixed() {
	let n: usize = kani::any();
	kani::assume(n <= 4);
	let adv: Option<usize> = if kani::any() { Some(kani::any()) } else { None };
	if let Some(a) = adv {
		kani::assume(a <= 4);
	}
	let vals: [u8; 4] = kani::any();
	let allow: bool = kani::any();
	let r = ser_value(&FIXED3, allow, &SeqOf { adv, n, vals });
	let valid = allow && n == 3 && adv.map_or(true, |a| a == 3);
	kani::cover!(valid, "COV accepted");
	kani::cover!(allow && n == 4 && adv.is_none(), "COV one element too many");
	match &r {
		Ok(o) => {
			assert!(valid, "OBL C02.fixed_seq.wrong_length_or_not_allowed_must_be_err");
			assert!(o.len() == 3 && o[..] == vals[..3], "OBL C02.fixed_seq.exactly_the_presented_bytes");
		}
		Err(_) => assert!(!valid, "OBL C01.fixed_seq.exact_length_must_serialize"),
	}
	std::mem::forget(r);
}

