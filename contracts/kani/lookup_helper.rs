//@ unit: lookup_helper
//@ inject-into: serde_avro_fast/src/schema/union_variants_per_type_lookup.rs
//@ crate-attr: feature(const_heap)
//@ anchor: serde_avro_fast/src/schema/union_variants_per_type_lookup.rs :: pub\(crate\) struct PerTypeLookup<'a> \{
//@ anchor: serde_avro_fast/src/schema/union_variants_per_type_lookup.rs :: pub\(crate\) fn unnamed\(

pub(crate) const N_KEYS: usize = N_VARIANTS;

/// const constructor of a union lookup table with a GIVEN type-directed table and an EMPTY
/// name table (never hashed; name-directed selection is assumed, A2).  The table a real schema
/// gets is computed by `PerTypeLookup::new`, which populates a HashMap and is out of reach.
pub(crate) const fn const_lookup(
	table: [Option<(i64, NodeRef<'static>)>; N_VARIANTS],
) -> PerTypeLookup<'static> {
	PerTypeLookup {
		per_name: HashMap::with_hasher(unsafe {
			std::mem::transmute::<(u64, u64), std::hash::RandomState>((0, 0))
		}),
		per_direct_union_variant: table,
	}
}
pub(crate) const fn key_index(k: UnionVariantLookupKey) -> usize {
	k as usize
}
