//@ unit: container_reader
//@ inject-into: serde_avro_fast/src/object_container_file_encoding/reader/mod.rs
//@ requires-unit: schema_helper
//@ anchor: serde_avro_fast/src/object_container_file_encoding/reader/mod.rs :: pub fn deserialize_seed_next<'de, S: DeserializeSeed<'de>>\(
//@ anchor: serde_avro_fast/src/object_container_file_encoding/reader/mod.rs :: fn deserialize_next_inner<'de, S: DeserializeSeed<'de>>\(
//@ anchor: serde_avro_fast/src/de/read/take.rs :: fn take\(self, block_size: usize\) -> Result<Self::Take, DeError> \{\n\t\tif block_size > self.slice.len\(\)
//@ anchor: serde_avro_fast/src/de/read/take.rs :: impl<'de> IntoLeftAfterTake for SliceReadTake<'de> \{
//@ include: spec
//@ include: common

// ---------------------------------------------------------------------------------------------
// C17: the container Reader on damaged input (null codec, schema long).  A Reader is put directly
// into its NotInBlock state over the block section of a file (header parsing goes through
// serde_json, out of reach); the file body is one block  [count][size][v][sync16]  whose header
// varints are written in (legal) two-byte form so that truncation can fall INSIDE a varint.
// ---------------------------------------------------------------------------------------------

use crate::schema::self_referential::{
	NodeRef,
	__verif_schema_helper::{mk_schema_static, NODES_LONG, N_LONG},
};
use std::mem::ManuallyDrop;

/// Built in place in the harness body (a macro, not a function): returning the struct from a
/// function moves it (memcpy), after which CBMC no longer constant-folds `compression_codec` and
/// explores miniz_oxide's inflate on every block (does not finish).
macro_rules! reader_over {
	($bytes:expr, $sync:expr) => {
		Reader {
			reader_state: ReaderState::NotInBlock {
				reader: de::read::SliceRead::new($bytes),
				config: de::DeserializerConfig::from_schema_node(NodeRef::from_static(&N_LONG)),
				decompression_buffer: Vec::new(),
			},
			compression_codec: CompressionCodec::Null,
			sync_marker: $sync,
			pretend_eof_because_yielded_unrecoverable_error: false,
			schema: Arc::new(ManuallyDrop::into_inner(mk_schema_static(&NODES_LONG, [0; 8]))),
		}
	};
}

/// Frame obligation (null codec only; C05 not applicable): the `BufReader` arms of the reader's
/// state enum (deflate) stay reachable for CBMC, which then explores miniz_oxide's inflate (does not
/// finish).  flate2's decompression entry point is replaced by an assertion that it is NOT entered.
fn verif_unreachable_inflate(
	_this: &mut flate2::Decompress,
	_input: &[u8],
	_output: &mut [u8],
	_flush: flate2::FlushDecompress,
) -> Result<flate2::Status, flate2::DecompressError> {
	assert!(false, "OBL frame.null_codec_only_inflate_not_entered");
	Ok(flate2::Status::StreamEnd)
}

/// outcome of one deserialize_next::<i64>() call
#[derive(Clone, Copy, PartialEq, Eq)]
enum Out {
	Val(i64),
	End,
	Error,
}
fn next(r: &mut Reader<de::read::SliceRead<'_>>) -> Out {
	let x = r.deserialize_next::<i64>();
	let o = match &x {
		Ok(Some(v)) => Out::Val(*v),
		Ok(None) => Out::End,
		Err(_) => Out::Error,
	};
	std::mem::forget(x);
	o
}

/// file body: one block holding the single value `v` (one-byte varint), two-byte header varints
fn one_block(v: i64, sync: &[u8; 16]) -> [u8; 21] {
	let mut f = [0u8; 21];
	f[0] = 0x82; // count = 1, written as the two-byte varint 82 00
	f[1] = 0x00;
	f[2] = 0x82; // byte size = 1, written as 82 00
	f[3] = 0x00;
	f[4] = spec_enc_long(v).0[0];
	f[5..21].copy_from_slice(sync);
	f
}

//@ harness: c17_truncated_at_every_offset
//@   props: C17
//@   tier: quick
//@   kind: bounded(file body of one block with one value; every truncation offset 0..=21 incl. inside the count varint, inside the size varint, before the data, inside the sync marker)
//@   fn: object_container_file_encoding::reader::Reader::{deserialize_next, deserialize_seed_next, deserialize_next_inner} + SliceRead::take / SliceReadTake::into_left_after_take
//@   domain: every value v (one-byte varint), every sync marker, every cut offset; three successive calls
//@   post: the results are a prefix of the written values (each exactly as written), then at most ONE error, then end of stream for every later call; the complete file yields the value then end of stream; no panic, no endless loop (unwinding assertions)
#[kani::proof]
#[kani::unwind(19)]
#[kani::stub(alloc::fmt::format, stub_format)]
#[kani::stub(flate2::Decompress::decompress, verif_unreachable_inflate)]
fn c17_truncated_at_every_offset() {
	let v: i64 = kani::any();
	kani::assume(v >= -64 && v < 64);
	let sync: [u8; 16] = kani::any();
	let file = one_block(v, &sync);
	let cut: usize = kani::any();
	kani::assume(cut <= 21);
	let mut r = reader_over!(&file[..cut], sync);
	let a = next(&mut r);
	let b = next(&mut r);
	let c = next(&mut r);
	kani::cover!(cut == 1 && a == Out::Error, "COV cut inside the count varint");
	kani::cover!(cut == 3 && a == Out::Error, "COV cut inside the size varint");
	kani::cover!(cut == 10 && a == Out::Val(v) && b == Out::Error, "COV cut inside the sync marker");
	if cut == 21 {
		assert!(a == Out::Val(v) && b == Out::End && c == Out::End, "OBL C17.complete_file.value_then_end_of_stream");
	} else if cut == 0 {
		assert!(a == Out::End && b == Out::End && c == Out::End, "OBL C17.empty_body.end_of_stream");
	} else {
		// genuine prefix only
		assert!(a == Out::Val(v) || a == Out::Error, "OBL C17.truncated.first_result_is_the_written_value_or_an_error");
		if a == Out::Error {
			assert!(b == Out::End && c == Out::End, "OBL C17.truncated.error_reported_once_then_end_of_stream");
		} else {
			assert!(b == Out::Error, "OBL C17.truncated.missing_sync_marker_is_an_error");
			assert!(c == Out::End, "OBL C17.truncated.error_reported_once_then_end_of_stream");
		}
	}
	std::mem::forget(r);
}

//@ harness: c17_corrupted_framing
//@   props: C17
//@   tier: quick
//@   kind: bounded(file body of one block with one value; one symbolic byte of the sync marker overwritten, or a declared size / object count that disagrees with the contents)
//@   fn: object_container_file_encoding::reader::Reader::deserialize_next_inner (sync comparison, into_left_after_take, count bookkeeping)
//@   domain: every sync marker, every position/value of a corrupted sync byte; declared byte size 0, 1, 2; declared count 0, 1, 2
//@   post: a trailing sync marker that differs from the header's is an error; a block whose declared size or count disagrees with its contents is an error (never a value that was not written, never silently accepted); after the error: end of stream
#[kani::proof]
#[kani::unwind(19)]
#[kani::stub(alloc::fmt::format, stub_format)]
#[kani::stub(flate2::Decompress::decompress, verif_unreachable_inflate)]
fn c17_corrupted_framing() {
	let v: i64 = kani::any();
	kani::assume(v >= -64 && v < 64);
	let sync: [u8; 16] = kani::any();
	let mut file = one_block(v, &sync);
	let which: u8 = kani::any();
	kani::assume(which < 3);
	let mut results_must_error = true;
	match which {
		0 => {
			// corrupt one byte of the trailing sync marker
			let i: usize = kani::any();
			kani::assume(i < 16);
			let x: u8 = kani::any();
			kani::assume(x != sync[i]);
			file[5 + i] = x;
		}
		1 => {
			// declared byte size disagrees with the contents (0 or 2 instead of 1)
			let s: u8 = kani::any();
			kani::assume(s == 0x80 || s == 0x84); // zig-zag of 0 / 2, still two-byte form
			file[2] = s;
		}
		_ => {
			// declared object count disagrees with the contents (0 or 2 instead of 1)
			let c: u8 = kani::any();
			kani::assume(c == 0x80 || c == 0x84);
			file[0] = c;
			// count 0 with size 1: the block's data is never consumed => "data left in the block"
			results_must_error = true;
		}
	}
	let mut r = reader_over!(&file[..], sync);
	let a = next(&mut r);
	let b = next(&mut r);
	let c = next(&mut r);
	let d = next(&mut r);
	let n_err = (a == Out::Error) as u8 + (b == Out::Error) as u8 + (c == Out::Error) as u8 + (d == Out::Error) as u8;
	kani::cover!(which == 0 && a == Out::Val(v) && b == Out::Error, "COV bad sync detected after the block's value");
	assert!(!results_must_error || n_err >= 1, "OBL C17.corruption.framing_disagreement_is_reported_as_an_error");
	assert!(n_err <= 1, "OBL C17.corruption.error_reported_once");
	// whatever was yielded before the error is the written value
	if let Out::Val(x) = a {
		assert!(x == v || which == 1, "OBL C17.corruption.never_a_value_that_was_not_written");
	}
	assert!(d == Out::End, "OBL C17.corruption.end_of_stream_after_the_error");
	std::mem::forget(r);
}

//@ harness: c17_broken_and_eof_latches
//@   props: C17
//@   tier: quick
//@   kind: complete
//@   fn: object_container_file_encoding::reader::Reader::deserialize_seed_next (state Broken / pretend-EOF latch)
//@   domain: reader in state Broken; reader whose EOF latch is set, over any remaining input
//@   post: Broken => Err once, then the latch is set and every later call is end of stream; latch set => end of stream without touching the input
#[kani::proof]
#[kani::unwind(19)]
#[kani::stub(alloc::fmt::format, stub_format)]
#[kani::stub(flate2::Decompress::decompress, verif_unreachable_inflate)]
fn c17_broken_and_eof_latches() {
	let buf: [u8; 4] = kani::any();
	let sync: [u8; 16] = kani::any();
	let mut r = reader_over!(&buf[..], sync);
	r.reader_state = ReaderState::Broken;
	let a = next(&mut r);
	let b = next(&mut r);
	assert!(a == Out::Error && b == Out::End, "OBL C17.broken.error_once_then_end_of_stream");
	assert!(r.pretend_eof_because_yielded_unrecoverable_error, "OBL C17.broken.latch_set");
	let mut r2 = reader_over!(&buf[..], sync);
	r2.pretend_eof_because_yielded_unrecoverable_error = true;
	let c = next(&mut r2);
	assert!(c == Out::End, "OBL C17.latch.end_of_stream_without_reading");
	std::mem::forget(r);
	std::mem::forget(r2);
}

//@ harness: c17_slice_take_contract
//@   props: C17, C11
//@   tier: quick
//@   kind: complete
//@   fn: de::read::take::{<SliceRead as Take>::take, <SliceReadTake as IntoLeftAfterTake>::into_left_after_take}
//@   domain: every input length 0..=6, every block_size (any usize)
//@   post: block_size > remaining => Err; otherwise the sub-reader holds exactly the first block_size bytes and the rest is left for afterwards; into_left_after_take is Ok iff the sub-reader was fully consumed, and then resumes exactly after the block
#[kani::proof]
#[kani::unwind(9)]
#[kani::stub(alloc::fmt::format, stub_format)]
fn c17_slice_take_contract() {
	use crate::de::read::take::{IntoLeftAfterTake, Take};
	use std::io::BufRead;
	let buf: [u8; 6] = kani::any();
	let len: usize = kani::any();
	kani::assume(len <= 6);
	let n: usize = kani::any();
	let t = de::read::SliceRead::new(&buf[..len]).take(n);
	match t {
		Err(e) => {
			std::mem::forget(e);
			assert!(n > len, "OBL C17.take.err_only_when_block_exceeds_input");
		}
		Ok(mut sub) => {
			assert!(n <= len, "OBL C17.take.block_larger_than_input_is_err");
			let avail = sub.fill_buf().map(|b| b.len()).unwrap_or(usize::MAX);
			assert!(avail == n, "OBL C17.take.sub_reader_limited_to_block_size");
			let eat: usize = kani::any();
			kani::assume(eat <= n);
			sub.consume(eat);
			match sub.into_left_after_take() {
				Ok(mut rest) => {
					assert!(eat == n, "OBL C17.take.leftover_block_data_is_an_error");
					let left = rest.fill_buf().map(|b| b.len()).unwrap_or(usize::MAX);
					assert!(left == len - n, "OBL C17.take.resumes_exactly_after_the_block");
				}
				Err(e) => {
					std::mem::forget(e);
					assert!(eat < n, "OBL C17.take.fully_consumed_block_is_accepted");
				}
			}
		}
	}
}

//@ harness: c17_reader_canary
//@   props: C17
//@   tier: quick
//@   kind: canary
#[kani::proof]
#[kani::unwind(19)]
#[kani::stub(alloc::fmt::format, stub_format)]
#[kani::stub(flate2::Decompress::decompress, verif_unreachable_inflate)]
fn c17_reader_canary() {
	let sync: [u8; 16] = kani::any();
	let file = one_block(5, &sync);
	let mut r = reader_over!(&file[..], sync);
	assert!(next(&mut r) == Out::Error, "OBL canary");
	std::mem::forget(r);
}
